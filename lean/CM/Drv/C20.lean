import CM.Lib.Wire
import CM.Model.Account
import CM.Generated.Fn
/-!
Driver handler for C20.

`url …`       the HTTPS rule: model of `newACMEClient(useTestCA)` given Go's url.Parse facts
`internal …`  `SubjectIsInternal` given Go's host normalisation and net.ParseIP
`trace …`     a whole observed history of one (CA, contact): storage operations on the two
              account files and the registration lock, attributed to processes, and the CA's
              answers. The handler maps each observation to model events (`obs`), validates
              it against the transition system (`step`: enabled? observed value = model's
              value?) and prints the final observables; independently `spec` judges the raw
              observations (the implementation's behaviour) by the property's monitors.
-/
namespace CM.Drv.C20
open CM.Wire CM.Account

def b01 (s : String) : Bool := s = "1"

/-! ### url / internal -/

def showWhich (ca test : String) : Option Which → String
  | some .ca => "accept " ++ ca
  | some .test => "accept " ++ test
  | none => "reject"

def handleUrl (args impl : List String) : String :=
  match args with
  | [useTest, testSet, caRaw, caFed, caOK, caScheme, caInt, testRaw, testFed, tOK, tScheme, tInt] =>
    match decStr caRaw, decStr caFed, decStr caScheme, decStr testRaw, decStr testFed, decStr tScheme with
    | some caRaw', some caFed', some caSch, some testRaw', some testFed', some tSch =>
      let ca : UrlFacts := { parseOK := b01 caOK, scheme := caSch, internal := b01 caInt }
      let test : UrlFacts := { parseOK := b01 tOK, scheme := tSch, internal := b01 tInt }
      -- the facts must be about the string the model says is parsed
      if withScheme caRaw' ≠ caFed' || (b01 testSet && withScheme testRaw' ≠ testFed') then
        reply "bad-feed" "-" "feed"
      else
        let w := newClient ca test (b01 testSet) (b01 useTest)
        -- the directory in use: the CA URL as parsed (scheme added), the test CA as configured
        let model := showWhich caFed testRaw w
        let spec := match impl with
          | ["accept", d] =>
            let used : Option UrlFacts :=
              if b01 useTest && b01 testSet && d = testRaw then some test
              else if d = caFed then some ca else none
            match used with
            | some u => if u.parseOK && (u.scheme == httpsL || u.internal) then "ok" else "bad:insecure-url-accepted"
            | none => "bad:unknown-directory"
          | ["reject"] => "ok"
          | _ => "-"
        let cls (u : UrlFacts) : String :=
          (if u.parseOK then "" else "E") ++ (if u.scheme == httpsL then "s" else if u.scheme == "http".toList then "h" else "o") ++
          (if u.internal then "i" else "p")
        let tag := cls ca ++ (if b01 testSet then "/" ++ cls test else "") ++ (if b01 useTest then "T" else "") ++
          (if hasSep caRaw' then "" else "+")
        reply model spec tag
    | _, _, _, _, _, _ => bad
  | _ => bad

def decBytes (tok : String) : Option (List Nat) :=
  if tok = "-" then some [] else
  (tok.splitOn ".").foldr (fun p acc => match p.toNat?, acc with
    | some n, some l => some (n :: l)
    | _, _ => none) (some [])

def handleInternal (args impl : List String) : String :=
  match args with
  | [host, ip] =>
    match decStr host, decBytes ip with
    | some h, some bytes =>
      let m := internalHost h bytes
      let model := if m then "true" else "false"
      let tag := (if bytes.length = 4 then "4" else if bytes.length = 16 then "6" else "n") ++
        (if internalIP bytes then "I" else "") ++ (if m && !internalIP bytes then "S" else "")
      let _ := impl
      reply model "-" tag
    | _, _ => bad
  | _ => bad

/-- `internalfn <hostOnly(subj)> <ip bytes>`: the TRANSLATED `SubjectIsInternal` (CM/Generated/Fn, printed
from the source on this run), with `hostOnly`'s answer and `isInternalIP`'s model as its parameters -/
def handleInternalFn (args impl : List String) : String :=
  match args with
  | [host, ip] =>
    match decStr host, decBytes ip with
    | some ho, some bytes =>
      if !(ho.all (fun c => c.toNat < 128)) || !(CM.Gen.Fn.translated.contains "SubjectIsInternal") then reply "*" "-" "" else
      let g := CM.Gen.Fn.SubjectIsInternal (fun _ => ho) (fun _ => internalIP bytes) []
      let _ := impl
      reply (if g then "true" else "false") "-" (if g then "G" else "g")
    | _, _ => bad
  | _ => bad

/-! ### trace -/

/-- what is pending for a process between two observations that form one model step -/
inductive Pend
  | none
  | reloadReg            -- reload: registration read and found, key read pending
  | reloadAbsent         -- reload: nothing stored; the new key is learnt at the newAccount request
  | pre1                 -- storeTx: first of the two preliminary reads done
  | chk                  -- deleteAccountLocally: registration read and found, key read pending
  deriving DecidableEq

structure DS where
  s : St
  pend : Nat → Pend

def setPend (d : DS) (p : Nat) (v : Pend) : DS := { d with pend := fun q => if q = p then v else d.pend q }

/-- apply model events in turn -/
def fire (d : DS) (es : List Ev) : Except String DS :=
  match run d.s es with
  | some s' => .ok { d with s := s' }
  | none => .error "not-enabled"

/-- a read result token: "n" = not-exist, "e" = injected error, number = account found -/
inductive RRes | absent | err | found (a : Nat)

def parseRes (t : String) : Option RRes :=
  if t = "n" then some .absent else if t = "e" then some .err else t.toNat?.map .found

def agrees (r : RRes) (v : Option Nat) : Bool :=
  match r, v with
  | .absent, none => true
  | .found a, some b => a == b
  | .err, _ => true
  | _, _ => false

def okTok (t : String) : Bool := t = "ok"

/-- begin a construction if none is in progress -/
def autoStart (d : DS) (p : Nat) : Except String DS :=
  if (d.s.pc p).canStart then fire d [.start p] else .ok d

def obs (d : DS) (tok : String) : Except String DS :=
  match tok.splitOn ":" with
  | ["R", ps, "reg", rs] =>
    match ps.toNat?, parseRes rs with
    | some p, some r => do
      let d ← autoStart d p
      if !agrees r d.s.reg then .error "read-reg-differs" else
      let flt := match r with | .err => true | _ => false
      match d.s.pc p with
      | .loadReg => fire d [.loadReg p flt]
      | .reload =>
        if flt then fire d [.reload p true 0]
        else match r with
          | .found _ => .ok (setPend d p .reloadReg)
          | _ => .ok (setPend d p .reloadAbsent)
      | .savePre _ => if flt then fire d [.savePre p true] else .ok (setPend d p .pre1)
      | .dneCheck _ =>
        if flt then fire d [.dneCheck p true]
        else match r with
          | .found _ => .ok (setPend d p .chk)
          | _ => fire d [.dneCheck p false]
      | _ => .error "read-reg-unexpected"
    | _, _ => .error "parse"
  | ["R", ps, "key", rs] =>
    match ps.toNat?, parseRes rs with
    | some p, some r =>
      if !agrees r d.s.key then .error "read-key-differs" else
      let flt := match r with | .err => true | _ => false
      match d.s.pc p, d.pend p with
      | .loadKey _, _ => fire d [.loadKey p flt]
      | .reload, .reloadReg =>
        if flt then fire (setPend d p .none) [.reload p true 0]
        else match r with
          | .found _ => fire (setPend d p .none) [.reload p false 0]
          | _ => .ok (setPend d p .reloadAbsent)
      | .savePre _, .pre1 => fire (setPend d p .none) [.savePre p flt]
      | .dneCheck _, .chk => fire (setPend d p .none) [.dneCheck p flt]
      | _, _ => .error "read-key-unexpected"
    | _, _ => .error "parse"
  | ["N", ps, ks, out] =>
    match ps.toNat?, ks.toNat? with
    | some p, some k =>
      match d.s.pc p, d.pend p with
      | .reload, .reloadAbsent =>
        if out = "c" then fire (setPend d p .none) [.reload p false k, .register p .ok]
        else if out = "r" then fire (setPend d p .none) [.reload p false k, .register p .refused]
        else .error "newAccount-outcome"
      | _, _ => .error "newAccount-unexpected"
    | _, _ => .error "parse"
  | ["W", ps, "reg", ks, res] =>
    match ps.toNat?, ks.toNat? with
    | some p, some k =>
      match d.s.pc p with
      | .saveReg k' => if k ≠ k' then .error "store-reg-other-account" else fire d [.saveReg p (okTok res)]
      | .rollback _ prev => if prev ≠ some k then .error "restore-reg-other-account" else fire d [.rollback p (okTok res)]
      | _ => .error "store-reg-unexpected"
    | _, _ => .error "parse"
  | ["W", ps, "key", ks, res] =>
    match ps.toNat?, ks.toNat? with
    | some p, some k =>
      match d.s.pc p with
      | .saveKey k' _ => if k ≠ k' then .error "store-key-other-account" else fire d [.saveKey p (okTok res)]
      | _ => .error "store-key-unexpected"
    | _, _ => .error "parse"
  | ["D", ps, "reg", res] =>
    match ps.toNat? with
    | some p =>
      match d.s.pc p with
      | .rollback _ prev => if prev ≠ none then .error "rollback-delete-but-previous-existed" else fire d [.rollback p (okTok res)]
      | .dneDelReg _ => fire d [.dneDelReg p (okTok res)]
      | _ => .error "delete-reg-unexpected"
    | none => .error "parse"
  | ["D", ps, "key", res] =>
    match ps.toNat? with
    | some p =>
      match d.s.pc p with
      | .dneDelKey _ => fire d [.dneDelKey p (okTok res)]
      | _ => .error "delete-key-unexpected"
    | none => .error "parse"
  | ["L", ps, res] =>
    match ps.toNat? with
    | some p =>
      match d.s.pc p with
      | .wantLock => fire d [.acq p (okTok res)]
      | .dneLock _ => fire d [.dneAcq p (okTok res)]
      | _ => .error "lock-unexpected"
    | none => .error "parse"
  | ["U", ps, res] =>
    match ps.toNat? with
    | some p =>
      match d.s.pc p, d.pend p with
      | .release _, _ => fire d [.rel p (okTok res)]
      | .dneRel _, _ => fire d [.dneRel p (okTok res)]
      -- the construction failed between the reload and the newAccount request
      | .reload, .reloadAbsent =>
        fire (setPend d p .none) [.reload p false d.s.nextKey, .register p .refused, .rel p (okTok res)]
      | _, _ => .error "unlock-unexpected"
    | none => .error "parse"
  | ["O", ps, as, out] =>
    match ps.toNat?, as.toNat? with
    | some p, some a =>
      match d.s.pc p with
      | .ready a' k =>
        if a ≠ a' then .error "order-with-other-account-than-model" else
        let predicted := if d.s.ca a = false then "dne" else if a' = k then "ok" else "err"
        if predicted ≠ out then .error ("order-outcome-" ++ predicted) else fire d [.order p]
      | _ => .error "order-unexpected"
    | _, _ => .error "parse"
  | ["F", as] =>
    match as.toNat? with
    | some a => fire d [.caForget a]
    | none => .error "parse"
  | ["E", ps, res] =>
    match ps.toNat? with
    | some p =>
      match d.s.pc p with
      | .ready _ _ => if okTok res then .ok d else .error "issue-failed-model-ready"
      | .failed => if okTok res then .error "issue-ok-model-failed" else .ok d
      | _ => .error "issue-ended-midway"
    | none => .error "parse"
  | _ => .error "token"

def optS : Option Nat → String
  | some a => toString a
  | none => "-"

def validate (toks : List String) : String :=
  let rec go (d : DS) (i : Nat) : List String → String
    | [] => "ok " ++ toString d.s.registers ++ " " ++ optS d.s.reg ++ " " ++ optS d.s.key
    | t :: r => match obs d t with
      | .ok d' => go d' (i + 1) r
      | .error e => "reject@" ++ toString i ++ ":" ++ e
  go { s := init, pend := fun _ => .none } 0 toks

/-! The executable specification: monitors over the raw observations. They follow the files'
contents by replaying the observed successful writes — not the model. -/

structure Mon where
  reg : Option Nat := none
  key : Option Nat := none
  created : Nat := 0
  faulty : Bool := false        -- a storage fault or a refused registration was observed
  delKeyFault : Bool := false
  forgot : Bool := false
  dne : List Nat := []          -- accounts the CA has disowned
  nerr : Nat := 0               -- failed storage operations in the whole observation
  regW : List Nat := []         -- accounts whose registration has been stored successfully at some time
  keyW : List Nat := []         -- accounts whose private key has been stored successfully at some time
  bad : Option String := none

def flag (m : Mon) (why : String) : Mon := if m.bad.isSome then m else { m with bad := some why }

def monStep (m : Mon) (tok : String) : Mon :=
  let complete := m.reg.isSome && m.reg == m.key
  match tok.splitOn ":" with
  | ["R", _, _, "e"] => { m with faulty := true }
  | ["L", _, res] => if okTok res then m else { m with faulty := true }
  | ["U", _, res] =>
    if okTok res then
      -- "persisted together": when the registration lock is given back, a stored registration has
      -- its key next to it (a failed save was rolled back) — unless the roll-back itself was hit
      -- by a further fault
      if m.reg.isSome && m.key != m.reg && m.nerr ≤ 1 then flag m "registration-stored-without-its-key" else m
    else { m with faulty := true }
  | ["N", _, _, out] =>
    if out = "c" then
      let m := { m with created := m.created + 1 }
      -- registered although a complete account is in storage
      let m := if complete then flag m "register-while-account-present" else m
      if m.created > 1 && !m.faulty && !m.forgot then flag m "two-registrations-fault-free" else m
    else { m with faulty := true }
  | ["W", _, "reg", ks, res] =>
    if okTok res then
      let m := if complete && m.reg != ks.toNat? && !(m.reg.any (fun a => m.dne.contains a)) then
        flag m "stored-account-replaced-without-dne" else m
      { m with reg := ks.toNat?, regW := ks.toNat?.toList ++ m.regW }
    else { m with faulty := true }
  | ["W", _, "key", ks, res] =>
    if okTok res then
      let m := if complete && m.key != ks.toNat? && !(m.reg.any (fun a => m.dne.contains a)) then
        flag m "stored-account-replaced-without-dne" else m
      { m with key := ks.toNat?, keyW := ks.toNat?.toList ++ m.keyW }
    else { m with faulty := true }
  | ["D", _, "reg", res] =>
    if okTok res then
      let m := if complete && !(m.reg.any (fun a => m.dne.contains a)) then flag m "stored-account-deleted-without-dne" else m
      { m with reg := none }
    else { m with faulty := true }
  | ["D", _, "key", res] =>
    if okTok res then
      let m := if complete && !(m.reg.any (fun a => m.dne.contains a)) then flag m "stored-account-deleted-without-dne" else m
      { m with key := none }
    else { m with faulty := true, delKeyFault := true }
  | ["O", _, as, out] =>
    let m := if out = "dne" then { m with dne := (as.toNat?.toList) ++ m.dne } else m
    -- faults or not: an order is placed only with an account that was written to storage,
    -- registration and key (C20_orders_only_with_persisted) — never with one whose save failed
    let m := match as.toNat? with
      | some a =>
        -- (the CA accepting the order shows that the client's key is a's key; otherwise only the
        -- registration in use is known from the observation)
        if m.regW.contains a && (out != "ok" || m.keyW.contains a) then m else flag m "order-with-account-never-persisted"
      | none => m
    -- in a run without faults and forgetting, every order is placed with the stored account
    if !m.faulty && !m.forgot && complete && m.reg != as.toNat? then flag m "order-with-unstored-account" else m
  | ["F", _] => { m with forgot := true }
  | _ => m

def spec (toks : List String) : String :=
  let m := toks.foldl monStep { nerr := (toks.filter (fun t => t.endsWith ":e" &&
    (t.startsWith "W:" || t.startsWith "D:" || t.startsWith "R:" || t.startsWith "L:" || t.startsWith "U:"))).length }
  let m := if !m.delKeyFault && m.reg.isSome && m.key.isSome && m.reg != m.key then flag m "mixed-account-files" else m
  match m.bad with
  | some w => "bad:" ++ w
  | none => "ok"

def traceTag (toks : List String) : String :=
  let has (pre : String) : Bool := toks.any (fun t => t.startsWith pre)
  let hasSuf (suf : String) : Bool := toks.any (fun t => t.endsWith suf)
  let procs := (toks.filterMap (fun t => match t.splitOn ":" with
    | _ :: p :: _ => p.toNat?
    | _ => none)).eraseDups.length
  "p" ++ toString (min procs 9) ++
  (if has "N:" then "N" else "") ++ (if hasSuf ":e" then "f" else "") ++ (if has "F:" then "F" else "") ++
  (if hasSuf ":dne" then "d" else "") ++ (if has "D:" then "D" else "") ++
  (if toks.any (fun t => t.startsWith "W:" && t.endsWith ":e") then "w" else "")

def handle (args impl : List String) : String :=
  match args with
  | "url" :: rest => handleUrl rest impl
  | "internal" :: rest => handleInternal rest impl
  | "internalfn" :: rest => handleInternalFn rest impl
  | "trace" :: toks => reply (validate toks) (spec toks) (traceTag toks)
  | _ => bad

end CM.Drv.C20
