import CM.Lib.Wire
import CM.Proofs.Clean
/-!
Driver handler for C18.

Request:  `clean <interval> <ocsp 0|1> <certs 0|1> <grace> <hex inst> <now> <store>`
          `=> <ok|err> <deleted keys> <changed-or-created keys> <last_clean reading> <mutation log>`
`<store>`: `-` or entries joined by `,`, each `<hex key>=<class>`; class `d` (directory),
`o` (file with no reading) or `f;<staple>;<cert>;<last>` with staple `x|n|<int>`,
cert `x|<int>`, last `x|z/<hex inst>|<int>/<hex inst>`.

Request:  `cleanf <the same arguments> <faults> => <the same observables>`: a cleaning during
which the storage calls listed in `<faults>` (`<kind><ordinal>@<hex key>` joined by `,`; kind
`i` List, `l` Load, `t` Stat, `D` Delete, `S` Store) failed with a transient error before
reaching the back end. The model knows no I/O errors and answers `*`; the specification judges
what holds whatever fails: nothing altered or created, every key that is gone justified
(`justifiedB`, sound by `C18_spec_sound`), nothing deleted and the record untouched when the
recorded cleaning is recent or unreadable, the record afterwards either the old one or this
cleaning's, this cleaning's when it reports success, and the lock bracket.
-/
namespace CM.Drv.C18
open CM.Wire CM.Clean

def splitSlash (s : List Char) : Key :=
  (s.foldr (fun c (acc : List Char × Key) =>
    if c = '/' then ([], acc.1 :: acc.2) else (c :: acc.1, acc.2)) ([], [])) |> fun p => p.1 :: p.2

def decKey (tok : String) : Option Key := (decStr tok).map splitSlash

def encKey (k : Key) : String := encStr (List.intercalate ['/'] k)

def decLast (t : String) : Option (Option (Option Int × List Char)) :=
  if t = "x" then some none else
  match t.splitOn "/" with
  | [a, b] =>
    match decStr b with
    | none => none
    | some who => if a = "z" then some (some (none, who)) else (a.toInt?).map (fun n => some (some n, who))
  | _ => none

def decVal (t : String) : Option Val :=
  if t = "d" then some .dir
  else if t = "o" then some (.file { staple := none, cert := none, last := none })
  else match t.splitOn ";" with
    | ["f", a, b, c] =>
      let st : Option (Option (Option Int)) :=
        if a = "x" then some none else if a = "n" then some (some none) else (a.toInt?).map (fun n => some (some n))
      let ce : Option (Option Int) := if b = "x" then some none else (b.toInt?).map some
      match st, ce, decLast c with
      | some st, some ce, some la => some (.file { staple := st, cert := ce, last := la })
      | _, _, _ => none
    | _ => none

def decStore (tok : String) : Option Store :=
  if tok = "-" then some [] else
  (tok.splitOn ",").foldr (fun e acc =>
    match e.splitOn "=", acc with
    | [a, b], some l => match decKey a, decVal b with
      | some k, some v => some ((k, v) :: l)
      | _, _ => none
    | _, _ => none) (some [])

def decKeys (tok : String) : Option (List Key) :=
  if tok = "-" then some [] else
  (tok.splitOn ",").foldr (fun e acc => match decKey e, acc with
    | some k, some l => some (k :: l)
    | _, _ => none) (some [])

def showKeys (l : List Key) : String :=
  if l = [] then "-" else String.intercalate "," (l.map encKey)

def showLast (v : Option Val) : String :=
  match v with
  | none => "absent"
  | some .dir => "dir"
  | some (.file r) =>
    match r.last with
    | none => "x"
    | some (none, who) => "z/" ++ encStr who
    | some (some t, who) => toString t ++ "/" ++ encStr who

def showAct : Act → String
  | .lock => "L" | .unlock => "U"
  | .delete k => "D" ++ encKey k
  | .store k => "S" ++ encKey k

def specVerdict (o : Opts) (now : Int) (s : Store) (impl : List String) : String :=
  match impl with
  | [res, del, chg, last, log] =>
    match decKeys del with
    | none => "bad-op"
    | some dk =>
      let s' := s.filter (fun e => !dk.contains e.1)
      let lc := lastCheck o now s
      let acts := log.splitOn ","
      if chg ≠ "-" then "bad:frame-altered-or-created"
      else if dk.any (fun k => (get s k).isNone) then "bad-op"
      else if dk.any (fun k => !justifiedB o now s s' k) then "bad:deleted-unjustified"
      else if lc = .recent && (del ≠ "-" || last ≠ showLast (get s lastKey) || res ≠ "ok") then "bad:interval-ignored"
      else if lc = .go && (res ≠ "ok" || last ≠ showLast (some (record now o.inst))) then "bad:not-recorded"
      else if (lc = .loadErr || lc = .decodeErr) && (del ≠ "-" || last ≠ showLast (get s lastKey)) then "bad:changed-after-error"
      else if acts.head? ≠ some "L" || acts.getLast? ≠ some "U" ||
          ((acts.drop 1).dropLast).any (fun a => a = "L" || a = "U") then "bad:not-locked"
      else "ok"
  | _ => "-"

/-- what must hold of a cleaning however many of its storage calls fail -/
def specVerdictF (o : Opts) (now : Int) (s : Store) (impl : List String) : String :=
  match impl with
  | [res, del, chg, last, log] =>
    match decKeys del with
    | none => "bad-op"
    | some dk =>
      let s' := s.filter (fun e => !dk.contains e.1)
      let lc := lastCheck o now s
      let acts := log.splitOn ","
      let old := showLast (get s lastKey)
      let new := showLast (some (record now o.inst))
      if chg ≠ "-" then "bad:frame-altered-or-created"
      else if dk.any (fun k => (get s k).isNone) then "bad-op"
      else if dk.any (fun k => !justifiedB o now s s' k) then "bad:deleted-unjustified"
      else if lc = .recent && (del ≠ "-" || last ≠ old) then "bad:interval-ignored"
      else if (lc = .loadErr || lc = .decodeErr) && (del ≠ "-" || last ≠ old) then "bad:changed-after-error"
      else if last ≠ old && last ≠ new then "bad:record-wrong"
      else if lc = .go && res = "ok" && last ≠ new then "bad:not-recorded"
      else if acts.head? ≠ some "L" || acts.getLast? ≠ some "U" ||
          ((acts.drop 1).dropLast).any (fun a => a = "L" || a = "U") then "bad:not-locked"
      else "ok"
  | _ => "-"

def faultKinds (faults : String) : String :=
  String.mk (((faults.splitOn ",").filterMap (fun f => f.toList.head?)).eraseDups)

def handle (args impl : List String) : String :=
  match args with
  | ["cleanf", iv, oc, ce, gr, inst, now, store, faults] =>
    match iv.toInt?, gr.toInt?, decStr inst, now.toInt?, decStore store with
    | some iv, some gr, some inst, some now, some s =>
      let o : Opts := { interval := iv, ocsp := oc = "1", certs := ce = "1", grace := gr, inst := inst }
      let tag := "fault:" ++ faultKinds faults ++
        (match impl with
         | [res, del, _, _, _] => "+" ++ res ++ (if del ≠ "-" then "+del" else "")
         | _ => "")
      reply "*" (specVerdictF o now s impl) tag
    | _, _, _, _, _ => bad
  | ["clean", iv, oc, ce, gr, inst, now, store] =>
    match iv.toInt?, gr.toInt?, decStr inst, now.toInt?, decStore store with
    | some iv, some gr, some inst, some now, some s =>
      let o : Opts := { interval := iv, ocsp := oc = "1", certs := ce = "1", grace := gr, inst := inst }
      let (s', out) := clean o now s
      let deleted := (s.filter (fun e => (get s' e.1).isNone)).map (·.1)
      let model := (if out.err then "err" else "ok") ++ " " ++ showKeys deleted ++ " - " ++
        showLast (get s' lastKey) ++ " " ++ String.intercalate "," ((acts o now s).map showAct)
      let nS := (deleted.filter (fun k => k.head? = some ocspC)).length
      let nC := (deleted.filter (fun k => k.head? = some certsC)).length
      let tag := (if out.err then "E" else if !out.ran then "skip" else "run") ++
        (if out.aborted then "+abort" else "") ++
        (if nS > 0 then "+staples" else "") ++ (if nC > 0 then "+certs" else "") ++
        (if out.dels.any (fun d => d.length = 3) then "+folder" else "") ++
        (if out.dels.length > deleted.length then "+noop-deletes" else "")
      reply model (specVerdict o now s impl) (if out.ran && nS + nC = 0 && !out.aborted then "" else tag)
    | _, _, _, _, _ => bad
  | _ => bad

end CM.Drv.C18
