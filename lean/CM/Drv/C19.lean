import CM.Lib.Wire
import CM.Model.Async
/-!
Driver handler for C19. Requests (after the `C19` prefix):

* `retry <cancelAt|-> <o:dur,…> => <n:t,…|-> <result> <returnInstant>` — one run of the real
  `doWithRetry` under virtual time. Outcomes `o` ok, `f` fail, `n` ErrNoRetry, `c` an error that
  Is(context.Canceled); the last script entry repeats for ever. Results: `nil`, `gaveuperr` (a
  plain error: the last attempt's, returned when the loop gives up), `canceled` (== context.Canceled),
  `cancelederr` (f's error that Is(context.Canceled)), `noretry`.
* `aretry <path> <o:dur,…> => <n:t,…>` — attempts of the issuer seen through the async
  obtain / renew paths (`ManageAsync` → job manager → `doWithRetry`).
* `jobs <label> <m> <event>… => <observation>… ran:<id>x<count>,…` — a history of a fresh job
  manager; events `s,<id>,<name>,<kind>` (kind `b` blocking, `io`/`ie`/`ip` instant
  ok/error/panic) and `r,<id>,<ok|err|panic>` (release a blocking job); one observation
  `q:<ids>/n:<names>/a:<activeWorkers>/r:<running ids>` per event, at quiescence.
* `producers <N> <event>… => <live>/<names>/<k0,…,kN-1>…` — every producer of renewal jobs
  interleaved over N names whose certificates are in storage and due for renewal, the CA failing
  throughout (a job, once started, stays in its back-off until the history ends). Events `m<i>`
  ManageAsync(name i), `c<i>` load name i into the cache (no job), `t` one maintenance pass,
  `w<minutes>`. One observation per event, at quiescence: jobs alive in the job manager (workers +
  queued), entries of `jm.names`, and per name the completed Lock calls so far on a storage lock of that
  name (one per renewal job that got past the issuance lock).
* `dir <ca> <testCA> <defaultCA> <useTestCA> => <directory> <usingTestCA>` — the real
  `newACMEClient` / `usingTestCA`.
* `issue <attempts> <ca> <testCA> <defaultCA> <first> <second> => <dir:throttled,…> <certdir|-> <class>`.

The second field of each answer is the executable specification judging the
implementation's output (never the model's).
-/
namespace CM.Drv.C19
open CM.Wire CM.Async

def splitOnC (s : String) (c : String) : List String := if s = "-" then [] else s.splitOn c

def showList (l : List String) (sep : String) : String :=
  if l.isEmpty then "-" else String.intercalate sep l

/-! ### retry -/

def decOutcome : String → Option Outcome
  | "o" => some .ok | "f" => some .fail | "n" => some .noRetry | "c" => some .canceledErr
  | _ => none

def decScript (tok : String) : Option (List Att) :=
  (splitOnC tok ",").foldr (fun p acc =>
    match p.splitOn ":", acc with
    | [o, d], some l => match decOutcome o, d.toNat? with
      | some o, some d => some ({ out := o, dur := d } :: l)
      | _, _ => none
    | _, _ => none) (some [])

def scriptFn (l : List Att) : Nat → Att :=
  fun k => l.getD k (l.getLast?.getD { out := .fail, dur := 0 })

def decTrace (tok : String) : Option (List (Nat × Nat)) :=
  (splitOnC tok ",").foldr (fun p acc =>
    match p.splitOn ":", acc with
    | [n, t], some l => match n.toNat?, t.toNat? with
      | some n, some t => some ((n, t) :: l)
      | _, _ => none
    | _, _ => none) (some [])

def showTrace (tr : List (Nat × Nat)) : String :=
  showList (tr.map (fun (n, t) => toString n ++ ":" ++ toString t)) ","

def showRes : Res → String
  | .ok => "nil" | .gaveUpErr => "gaveuperr" | .canceled => "canceled" | .canceledErr => "cancelederr"
  | .noRetry => "noretry" | .outOfFuel => "fuel"

def showRetry (o : RetryOut) : String :=
  showTrace o.trace ++ " " ++ showRes o.res ++ " " ++ toString o.ret

/-- result token of the implementation as a `Res` -/
def decRes : String → Option Res
  | "nil" => some .ok
  | "gaveuperr" => some .gaveUpErr
  | "canceled" => some .canceled
  | "cancelederr" => some .canceledErr
  | "noretry" => some .noRetry
  | _ => none

/-- the executable specification of `CM/Model/Async.lean` applied to an observed run -/
def specRetry (sc : Nat → Att) (cancel : Option Nat) (tr : List (Nat × Nat)) (res : String) (ret : Nat) : String :=
  match specAttempts sc cancel tr with
  | some r => "bad:" ++ r
  | none =>
    match decRes res with
    | none => "bad:result"
    | some r => match specEnd sc cancel tr r ret with
      | some why => "bad:" ++ why
      | none => "ok"

def tagRetry (o : RetryOut) (cancel : Option Nat) : String :=
  showRes o.res ++ ":" ++ toString (min o.trace.length 30) ++ (if cancel.isSome then "c" else "")

/-! ### job manager -/

inductive Kind | blocking | instOk | instErr | instPanic
  deriving DecidableEq

structure SEv where
  submit : Bool
  id : Nat
  name : String
  kind : Kind        -- for submit
  outcome : String   -- for release

def decKind : String → Option Kind
  | "b" => some .blocking | "io" => some .instOk | "ie" => some .instErr | "ip" => some .instPanic
  | _ => none

def decSEv (tok : String) : Option SEv :=
  match tok.splitOn "," with
  | ["s", id, nm, k] => match id.toNat?, decStr nm, decKind k with
    | some id, some nm, some k => some { submit := true, id := id, name := String.ofList nm, kind := k, outcome := "" }
    | _, _, _ => none
  | ["r", id, o] => match id.toNat? with
    | some id => if o = "ok" || o = "err" || o = "panic" then
        some { submit := false, id := id, name := "", kind := .blocking, outcome := o } else none
    | none => none
  | _ => none

/-- model state of a history: the LTS state, the kinds of the jobs, names seen, take counts -/
structure Hist where
  s : JM
  kinds : List (Nat × Kind)
  seen : List String
  taken : List Nat

def findIdle (s : JM) : Nat → Option Nat
  | 0 => none
  | n + 1 => match findIdle s n with
    | some w => some w
    | none => if s.ws n = .idle then some n else none

def findRunning (s : JM) (id : Nat) : Nat → Option Nat
  | 0 => none
  | n + 1 => match findRunning s id n with
    | some w => some w
    | none => match s.ws n with
      | .running j => if j.id = id then some n else none
      | _ => none

/-- run the idle workers until each of them is inside a blocking job or has exited (what the
real workers do between two script events, up to quiescence) -/
def settle : Nat → Hist → Option Hist
  | 0, h => some h
  | fuel + 1, h =>
    match findIdle h.s h.s.nextW with
    | none => some h
    | some w =>
      match h.s.queue with
      | [] => match step h.s (.workerExit w) with
        | some s' => settle fuel { h with s := s' }
        | none => none
      | j :: _ =>
        match step h.s (.take w) with
        | none => none
        | some s1 =>
          let h1 := { h with s := s1, taken := j.id :: h.taken }
          match (h.kinds.lookup j.id).getD .blocking with
          | .blocking => settle fuel h1
          | k =>
            let e : Ev := if k = .instPanic then .jobPanic w else .jobReturn w (k = .instOk)
            match step s1 e with
            | none => none
            | some s2 => match step s2 (.release w) with
              | none => none
              | some s3 => settle fuel { h1 with s := s3 }

def applySEv (h : Hist) (e : SEv) : Option Hist :=
  let fuel := 2 * (h.s.queue.length + h.s.nextW) + 8
  if e.submit then
    match step h.s (.submit e.id e.name) with
    | none => none
    | some s' =>
      settle fuel { h with s := s', kinds := (e.id, e.kind) :: h.kinds
                           seen := if h.seen.contains e.name then h.seen else e.name :: h.seen }
  else
    match findRunning h.s e.id h.s.nextW with
    | none => none
    | some w =>
      let ev : Ev := if e.outcome = "panic" then .jobPanic w else .jobReturn w (e.outcome = "ok")
      match step h.s ev with
      | none => none
      | some s1 => match step s1 (.release w) with
        | none => none
        | some s2 => settle fuel { h with s := s2 }

def insertSorted (lt : α → α → Bool) (x : α) : List α → List α
  | [] => [x]
  | y :: r => if lt x y then x :: y :: r else y :: insertSorted lt x r

def sortBy (lt : α → α → Bool) (l : List α) : List α := l.foldr (insertSorted lt) []

def runningIds (s : JM) : Nat → List Nat
  | 0 => []
  | n + 1 => match s.ws n with
    | .running j => j.id :: runningIds s n
    | _ => runningIds s n

def showIds (l : List Nat) : String := showList (l.map toString) ","

def showObs (h : Hist) : String :=
  let names := sortBy (fun a b => decide (a < b)) (h.seen.filter (fun n => h.s.names n))
  "q:" ++ showIds (h.s.queue.map (·.id)) ++
  "/n:" ++ showList (names.map (fun n => encStr n.toList)) "," ++
  "/a:" ++ toString h.s.active ++
  "/r:" ++ showIds (sortBy (fun a b => decide (a < b)) (runningIds h.s h.s.nextW))

def runHist (m : Nat) (evs : List SEv) : Option (List String × Hist) :=
  evs.foldl (fun acc e => match acc with
    | none => none
    | some (obs, h) => match applySEv h e with
      | none => none
      | some h' => some (obs ++ [showObs h'], h')) (some ([], { s := init m, kinds := [], seen := [], taken := [] }))

/-- one implementation observation -/
structure Obs where
  q : List Nat
  n : List String
  a : Nat
  r : List Nat

def decIds (s : String) : Option (List Nat) :=
  (splitOnC s ",").foldr (fun p acc => match p.toNat?, acc with
    | some n, some l => some (n :: l)
    | _, _ => none) (some [])

def decObs (tok : String) : Option Obs :=
  match tok.splitOn "/" with
  | [q, n, a, r] =>
    if q.startsWith "q:" && n.startsWith "n:" && a.startsWith "a:" && r.startsWith "r:" then
      match decIds (q.drop 2).toString, (a.drop 2).toString.toNat?, decIds (r.drop 2).toString with
      | some q, some a, some r =>
        let ns := (splitOnC (n.drop 2).toString ",").foldr (fun p acc => match decStr p, acc with
          | some s, some l => some (String.ofList s :: l)
          | _, _ => none) (some [])
        match ns with
        | some ns => some { q := q, n := ns, a := a, r := r }
        | none => none
      | _, _, _ => none
    else none
  | _ => none

def decRan (tok : String) : Option (List (Nat × Nat)) :=
  if !tok.startsWith "ran:" then none else
  (splitOnC (tok.drop 4).toString ",").foldr (fun p acc => match p.splitOn "x", acc with
    | [i, c], some l => match i.toNat?, c.toNat? with
      | some i, some c => some ((i, c) :: l)
      | _, _ => none
    | _, _ => none) (some [])

def dedup (l : List String) : List String := l.foldr (fun x acc => if acc.contains x then acc else x :: acc) []

/-- executable specification of a job-manager history, from the script and the
implementation's own observations: (per observation) no non-empty name twice among the live
(queued or running) jobs; `names` = the names of the live jobs — no name stuck, none missing; at
most `m` jobs run, none waits while a slot is free, no worker lingers; (per submission) a
duplicate of a live name is dropped, everything else is accepted; (at the end) everything
drained, accepted jobs ran exactly once, dropped ones never -/
def specJobs (m : Nat) (evs : List SEv) (obs : List Obs) (ran : List (Nat × Nat)) : String :=
  let nameOf (id : Nat) : String := match evs.find? (fun e => e.submit && e.id = id) with
    | some e => e.name
    | none => ""
  let rec go (evs : List SEv) (obs : List Obs) (prev : Obs) (must : List (Nat × Bool)) : String × List (Nat × Bool) :=
    match evs, obs with
    | e :: er, o :: orest =>
      let live := o.q ++ o.r
      let liveNames := (live.map nameOf).filter (· ≠ "")
      let expectNames := sortBy (fun a b => decide (a < b)) (dedup liveNames)
      let prevLive := prev.q ++ prev.r
      let dupExpected := e.submit && e.name ≠ "" && prevLive.any (fun (i : Nat) => nameOf i == e.name)
      let must' := if e.submit then (e.id, !dupExpected) :: must else must
      if liveNames.length ≠ (dedup liveNames).length then ("bad:duplicate-name-live", must')
      else if o.n.any (fun n => !expectNames.contains n) then ("bad:name-stuck", must')
      else if expectNames.any (fun n => !o.n.contains n) then ("bad:name-missing", must')
      else if o.r.length > m then ("bad:too-many-workers", must')
      else if !o.q.isEmpty && o.r.length < m then ("bad:queued-while-slot-free", must')
      else if o.a ≠ o.r.length then ("bad:worker-count", must')
      else if e.submit && dupExpected && live.contains e.id then ("bad:duplicate-accepted", must')
      else if e.submit && !dupExpected && e.kind = .blocking && !live.contains e.id then ("bad:job-dropped", must')
      else go er orest o must'
    | [], [] =>
      if !prev.q.isEmpty || !prev.r.isEmpty then ("bad:not-drained", must) else ("ok", must)
    | _, _ => ("bad-op", must)
  let (v, must) := go evs obs { q := [], n := [], a := 0, r := [] } []
  if v ≠ "ok" then v
  else
    let bad := must.find? (fun (id, acc) =>
      let c := (ran.lookup id).getD 0
      if acc then c ≠ 1 else c ≠ 0)
    match bad with
    | none => "ok"
    | some (id, acc) =>
      let c := (ran.lookup id).getD 0
      if acc then (if c = 0 then "bad:accepted-job-never-ran" else "bad:job-ran-twice")
      else "bad:duplicate-ran"

/-! ### (c) -/

def decDOut : String → Option DOut
  | "ok" => some .ok | "err" => some .err | "429" => some .rateLimited | _ => none

def showClass : ErrClass → String
  | .none => "none" | .retryable => "retryable" | .noRetry => "noretry"

def b01 (b : Bool) : String := if b then "1" else "0"

/-! ### producers of renewal jobs -/

inductive PEv where
  | manage (i : Nat) | load (i : Nat) | tick | wait

def decPEv (n : Nat) (s : String) : Option PEv :=
  let idx (r : List Char) : Option Nat := (String.mk r).toNat?.bind (fun i => if i < n then some i else none)
  match s.toList with
  | ['t'] => some .tick
  | 'm' :: r => (idx r).map .manage
  | 'c' :: r => (idx r).map .load
  | 'w' :: r => (String.mk r).toNat?.map (fun _ => .wait)
  | _ => none

/-- which names are in the cache, and for which names a renewal has been asked for (a function
of the history alone: the certificates are due and the CA fails, so a renewal asked for is still
being retried when the history ends) -/
structure PSt where
  cached : List Bool
  job : List Bool

def pStep (s : PSt) : PEv → PSt
  | .manage i => if s.cached.getD i false then s
                 else { cached := s.cached.set i true, job := s.job.set i true }
  | .load i => { s with cached := s.cached.set i true }
  | .tick => { s with job := List.zipWith (fun j c => j || c) s.job s.cached }
  | .wait => s

def pStates (s : PSt) : List PEv → List PSt
  | [] => []
  | e :: es => let s' := pStep s e; s' :: pStates s' es

def pShow (s : PSt) : String :=
  let c := toString (s.job.count true)
  c ++ "/" ++ c ++ "/" ++ showList (s.job.map (fun b => if b then "1" else "0")) ","

def decPObs (tok : String) : Option (Nat × Nat × List Nat) :=
  match tok.splitOn "/" with
  | [l, n, ks] =>
    match l.toNat?, n.toNat?, (splitOnC ks ",").foldr (fun k acc => match k.toNat?, acc with
        | some k, some a => some (k :: a)
        | _, _ => none) (some []) with
    | some l, some n, some ks => some (l, n, ks)
    | _, _, _ => none
  | _ => none

/-- the specification, on the implementation's observations: per name never more than one
renewal job (counted by the per-name completed lock calls, and — pigeonhole — by the number of live
jobs against the number of names a renewal was asked for); a renewal asked for is not lost -/
def specProducers : List PSt → List String → String
  | [], [] => "ok"
  | s :: ss, t :: ts =>
    match decPObs t with
    | none => "bad-op"
    | some (live, names, ks) =>
      let want := s.job.count true
      if ks.length ≠ s.job.length then "bad-op"
      else if ks.any (fun k => decide (k > 1)) || decide (live > want) || decide (names > want) then
        "bad:two-renewal-jobs-one-name"
      else if decide (live < want) || (List.zipWith (fun k j => j && k == 0) ks s.job).any id then
        "bad:renewal-job-lost"
      else specProducers ss ts
  | _, _ => "bad-op"

def handle (args impl : List String) : String :=
  match args with
  | ["retry", c, sc] =>
    let cancel : Option (Option Nat) := if c = "-" then some none else c.toNat?.map some
    match cancel, decScript sc with
    | some cancel, some l =>
      if l.isEmpty then bad else
      let f := scriptFn l
      let o1 := retry { script := f, cancelAt := cancel, tie := fun _ => false }
      let o2 := retry { script := f, cancelAt := cancel, tie := fun _ => true }
      let implS := String.intercalate " " impl
      -- a select with the timer and the cancellation ready at the same instant is resolved
      -- pseudo-randomly by Go: both resolutions are runs of the model
      let o := if showRetry o1 = implS then o1 else if showRetry o2 = implS then o2 else o1
      let spec := match impl with
        | [tr, res, ret] => match decTrace tr, ret.toNat? with
          | some tr, some ret => specRetry f cancel tr res ret
          | _, _ => "bad-op"
        | _ => "-"
      reply (showRetry o) spec (tagRetry o cancel ++ (if showRetry o1 ≠ showRetry o2 then "t" else ""))
    | _, _ => bad
  | ["aretry", _path, sc] =>
    match decScript sc with
    | some l =>
      if l.isEmpty then bad else
      let f := scriptFn l
      let o := retry { script := f, cancelAt := none, tie := fun _ => false }
      let spec := match impl with
        | [tr] => match decTrace tr with
          | some tr => match specAttempts f none tr with
            | some r => "bad:" ++ r
            | none => if tr.isEmpty then "bad:no-attempt"
                      else if (f (tr.length - 1)).out = .fail then "bad:stopped-retrying" else "ok"
          | none => "bad-op"
        | _ => "-"
      reply (showTrace o.trace) spec ("async:" ++ toString (min o.trace.length 30))
    | none => bad
  | "producers" :: n :: evToks =>
    match n.toNat? with
    | some n =>
      match evToks.foldr (fun t acc => match decPEv n t, acc with
          | some e, some l => some (e :: l)
          | _, _ => none) (some []) with
      | some evs =>
        if n = 0 || evs.isEmpty then bad else
        let sts := pStates { cached := List.replicate n false, job := List.replicate n false } evs
        let spec := if impl.isEmpty then "-" else specProducers sts impl
        let both := evs.any (fun e => match e with | .tick => true | _ => false) &&
                    evs.any (fun e => match e with | .manage _ => true | _ => false)
        reply (String.intercalate " " (sts.map pShow)) spec
          ("producers:" ++ toString n ++ ":" ++ toString (min evs.length 8) ++ (if both then "mt" else ""))
      | none => bad
    | none => bad
  | "jobs" :: label :: m :: evToks =>
    match m.toNat?, evToks.foldr (fun t acc => match decSEv t, acc with
        | some e, some l => some (e :: l)
        | _, _ => none) (some []) with
    | some m, some evs =>
      let model := match runHist m evs with
        | none => "stuck"
        | some (obs, h) =>
          let ids := sortBy (fun a b => decide (a < b)) (evs.filter (·.submit) |>.map (·.id))
          let ran := ids.map (fun i => toString i ++ "x" ++ toString (h.taken.count i))
          String.intercalate " " (obs ++ ["ran:" ++ showList ran ","])
      let spec :=
        if impl.isEmpty then "-" else
        let obsT := impl.dropLast
        let obs := obsT.foldr (fun t acc => match decObs t, acc with
          | some o, some l => some (o :: l)
          | _, _ => none) (some [])
        match obs, impl.getLast?.bind decRan with
        | some obs, some ran => specJobs m evs obs ran
        | _, _ => "bad-op"
      let tag := label ++ ":" ++ toString m ++ ":" ++ toString (min evs.length 12) ++
        (if evs.any (fun e => e.outcome = "panic" || e.kind = .instPanic) then "p" else "")
      reply model spec tag
    | _, _ => bad
  | ["dir", ca, tca, dca, ut] =>
    match decStr ca, decStr tca, decStr dca with
    | some ca, some tca, some dca =>
      let i : IssueIn := { attempts := 0, ca := String.ofList ca, testCA := String.ofList tca
                           defaultCA := String.ofList dca, first := .ok, second := .ok }
      let d := directory i (ut = "1")
      let model := encStr d.toList ++ " " ++ b01 (usingTestCA i d)
      let spec := match impl with
        | [o, _] => match decStr o with
          | some o =>
            let o := String.ofList o
            if ut ≠ "1" && o ≠ prodDir i then "bad:production-client-other-directory"
            else if ut = "1" && i.testCA ≠ "" && o ≠ i.testCA then "bad:test-ca-not-used"
            else if ut = "1" && i.testCA = "" && o ≠ prodDir i then "bad:production-client-other-directory"
            else "ok"
          | none => "bad-op"
        | _ => "-"
      reply model spec ((if ut = "1" then "T" else "P") ++ (if tca = [] then "e" else if tca = ca then "s" else "d") ++
        (if ca = [] then "0" else if hasScheme ca then "u" else "h"))
    | _, _, _ => bad
  | ["issue", att, ca, tca, dca, f, s] =>
    match att.toNat?, decStr ca, decStr tca, decStr dca, decDOut f, decDOut s with
    | some att, some ca, some tca, some dca, some f, some s =>
      let i : IssueIn := { attempts := att, ca := String.ofList ca, testCA := String.ofList tca
                           defaultCA := String.ofList dca, first := f, second := s }
      let o := issue i
      let calls := showList (o.calls.map (fun c => encStr c.dir.toList ++ ":" ++ b01 c.throttled)) ","
      let cert := match o.cert with | some d => encStr d.toList | none => "-"
      let model := calls ++ " " ++ cert ++ " " ++ showClass o.err
      let spec := match impl with
        | [ic, icert, _] =>
          let firstDir := match (splitOnC ic ",").head? with
            | some c => (c.splitOn ":").head?.bind decStr |>.map String.ofList
            | none => none
          let certBad := if icert = "-" then false else match decStr icert with
            | some d => String.ofList d ≠ prodDir i && String.ofList d ≠ i.ca
            | none => true
          if certBad then "bad:test-certificate-returned"
          else if att > 0 && i.testCA ≠ "" && i.testCA ≠ i.ca && firstDir ≠ some i.testCA then "bad:test-ca-not-first"
          else "ok"
        | _ => "-"
      reply model spec ((if att > 0 then "R" else "F") ++ (if tca = [] then "e" else if tca = ca then "s" else "d") ++
        showClass o.err ++ toString o.calls.length)
    | _, _, _, _, _, _ => bad
  | _ => bad

end CM.Drv.C19
