import CM.Lib.Wire
/-! Driver handler for C03 (stub: not built yet). -/
namespace CM.Drv.C03
open CM.Wire

def handle (_args _impl : List String) : String := bad

end CM.Drv.C03
