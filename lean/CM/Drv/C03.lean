import CM.Lib.Wire
import CM.Model.Cache
import CM.Model.Lookup
import CM.Proofs.Lookup
import CM.Generated.Fn
/-!
Driver handler for C03.

Request: `look <cap> <state> <now> <views> <defRaw> <defNorm> <fbRaw> <fbNorm> <sniRaw> <sniNorm>
          <conn> <idna> <stored> => <getCertificateFromCache> <GetCertificate>`
  state   the implementation's two maps, rendered as for C12 (names: plain, `-` = empty,
          `~<hex runes>` for anything outside [a-z0-9.*:-])
  views   `hash:supported:notBefore:notAfter:complete,…` (real `hello.SupportsCertificate`)
  raw/norm  hex runes of the configured / requested name and of Go's `normalizedName` of it
          (`~` = option unset); the model normalises ASCII input itself
  conn    hex runes of `localIPFromConn(hello.Conn)`, `~` = nil Conn
  idna    hex runes of `idna.Lookup.ToASCII(TrimSpace(ServerName))`, `!` = error
  stored  `name=cert;…` managed bundles in storage
  impl    `m:<hash>|d:<hash>|none` then `err | empty | panic | ok <hash> <chain 0/1> <key 0/1>`
Answer: the model's two results | the executable specification's verdict on the
IMPLEMENTATION's answer | branch tag.

Request: `conc <cap> <state>+<state>+… <defRaw> <defNorm> <fbRaw> <fbNorm> <sniRaw> <sniNorm> <conn>
          => <GetCertificate>`
  a lookup that ran WHILE the cache was being changed (certificates replaced, removed, added,
  evicted — each an atomic operation): the states are those the cache can have had between the
  start and the return of the lookup (snapshots of the two maps taken by the only writer).
  The model's answer is `*` (which state the lookup saw is not determined); the specification
  (`judgeConc`) accepts an error, or a complete certificate that was cached in one of the
  states and covers the name (or lists the local IP / default name for no SNI, or the fallback
  name); an error is rejected when one key the lookup tries is listed in EVERY state.
-/
namespace CM.Drv.C03
open CM.Wire CM.Cache CM.Lookup

def dash (s : String) : String := if s = "-" then "" else s
def optList (s : String) (sep : String) : List String := if s = "-" then [] else s.splitOn sep

def decName (t : String) : Name :=
  if t = "-" then [] else
  match t.toList with
  | '~' :: r => (decStr (String.ofList r)).getD []
  | l => l

def parseCertFields : List String → Option Cert
  | [h, ns, ts, m, iss, ari] =>
    ari.toNat?.map fun a =>
      { hash := dash h, names := (optList ns ",").map decName, tags := optList ts ",",
        managed := m = "1", issuer := dash iss, ari := a }
  | _ => none

def parseState (cap : Nat) (t : String) : Option State :=
  match t.splitOn "#" with
  | [cs, is] =>
    let centries := (optList cs ";").map fun e =>
      match e.splitOn "/" with
      | k :: rest => (parseCertFields rest).map fun c => (dash k, c)
      | [] => none
    let ientries := (optList is ";").map fun e =>
      match e.splitOn "=" with
      | [n, hs] => some (decName n, (optList hs ",").map dash)
      | _ => none
    if centries.all Option.isSome && ientries.all Option.isSome then
      some { cache := centries.filterMap id, index := ientries.filterMap id, cap := cap }
    else none
  | _ => none

def parseViews (t : String) : Option (List (Hash × View)) :=
  let vs := (optList t ",").map fun e =>
    match e.splitOn ":" with
    | [h, sup, nb, na, cpl] =>
      match nb.toInt?, na.toInt? with
      | some nb, some na => some (h, ({ supported := sup = "1", nb := nb, na := na, complete := cpl = "1" } : View))
      | _, _ => none
    | _ => none
  if vs.all Option.isSome then some (vs.filterMap id) else none

def parseStored (t : String) : Option (List (Name × Cert)) :=
  let vs := (optList t ";").map fun e =>
    match e.splitOn "=" with
    | [n, c] => (parseCertFields (c.splitOn "/")).map fun c => (decName n, c)
    | _ => none
  if vs.all Option.isSome then some (vs.filterMap id) else none

/-- the normalised name: the model's own for ASCII input, Go's otherwise; `none` if the two
disagree on ASCII input -/
def normOf (rawTok normTok : String) : Option Name :=
  match decStr rawTok, decStr normTok with
  | some raw, some norm =>
    if raw.all (fun c => c.toNat < 128) then
      if normASCII raw = norm then some norm else none
    else some norm
  | _, _ => none

def listing (s : State) (n : Name) : List Cert := (s.cache.map (·.2)).filter (fun c => c.names.contains n)

def coversB (n : Name) (names : List Name) : Bool := (n :: candidates n).any (fun w => names.contains w)

def showAns (e : Env) : Ans → String
  | .err => "err"
  | .ok c => "ok " ++ c.hash ++ " 1 " ++ (if (e.view c.hash).complete then "1" else "0")

def showFC : Option (Cert × How) → String
  | some (c, .matched) => "m:" ++ c.hash
  | some (c, .defaulted) => "d:" ++ c.hash
  | none => "none"

/-- the executable specification, judging the implementation's answer on the
implementation's cache content (cached certificates are read from the cache map, not through
the index; `covers` is decided by `coversB`, see `covers_iff_candidates`) -/
def judge (e : Env) (cfg : Cfg) (s : State) (h : Hello) (r : Req) : List String → String
  | ["err"] =>
    let keys := if h.sni = [] then h.conn.toList else h.sni :: candidates h.sni
    if keys.any (fun k => !(listing s k).isEmpty) then "bad:error-despite-covering-certificate" else "ok"
  | ["empty"] => "bad:empty-certificate-nil-error"
  | ["panic"] => "bad:panic"
  | ["ok", hash, chain, key] =>
    if chain ≠ "1" || key ≠ "1" then "bad:incomplete-certificate" else
    let cached := get? hash s.cache
    match (match cached with
           | some c => some c
           | none => (r.stored.find? (fun (p : Name × Cert) => p.2.hash = hash)).map (fun (p : Name × Cert) => p.2)) with
    | none => "bad:certificate-neither-cached-nor-stored"
    | some c =>
      let lists (o : Option Name) : Bool := match o with
        | some n => c.names.contains n
        | none => false
      let just := (h.sni ≠ [] && coversB h.sni c.names) || (h.sni = [] && lists h.conn) ||
        (h.sni = [] && lists cfg.defaultName) || lists cfg.fallbackName
      let stor := almostFull s && (match requestName cfg h r with
        | some nm => qualifies nm && loadStored r.stored nm == some c
        | none => false)
      if !(just || stor) then "bad:certificate-does-not-cover-name"
      else if h.sni ≠ [] && !(listing s h.sni).isEmpty && !c.names.contains h.sni then "bad:exact-match-not-preferred"
      else if h.sni = [] && (match h.conn with
          | some ip => !(listing s ip).isEmpty && !c.names.contains ip
          | none => false) then "bad:local-ip-not-preferred"
      else
        match (keysTried cfg h).find? (fun k => !(listing s k).isEmpty) with
        | some k =>
          if cached.isSome && (listing s k).any e.good && !e.good c then "bad:valid-supported-certificate-not-preferred"
          else "ok"
        | none => "ok"
  | _ => "bad:unparsable-answer"

/-- the executable specification for a lookup that ran while the cache passed through the
states `ss` (C03_total and C03_sound, read over "some state the lookup can have seen"; the
preferences among several candidates are not judged here: a lookup tries its keys one after
the other and may see a different state for each) -/
def judgeConc (cfg : Cfg) (ss : List State) (h : Hello) : List String → String
  | ["err"] =>
    let keys := if h.sni = [] then h.conn.toList else h.sni :: candidates h.sni
    if keys.any (fun k => ss.all (fun s => !(listing s k).isEmpty)) then "bad:error-despite-covering-certificate" else "ok"
  | ["empty"] => "bad:empty-certificate-nil-error"
  | ["panic"] => "bad:panic"
  | ["ok", hash, chain, key] =>
    if chain ≠ "1" || key ≠ "1" then "bad:incomplete-certificate" else
    match ss.findSome? (fun s => get? hash s.cache) with
    | none => "bad:certificate-not-cached-at-any-moment-of-the-lookup"
    | some c =>
      let lists (o : Option Name) : Bool := match o with
        | some n => c.names.contains n
        | none => false
      let just := (h.sni ≠ [] && coversB h.sni c.names) || (h.sni = [] && lists h.conn) ||
        (h.sni = [] && lists cfg.defaultName) || lists cfg.fallbackName
      if just then "ok" else "bad:certificate-does-not-cover-name"
  | _ => "bad:unparsable-answer"

def handle (args impl : List String) : String :=
  match args with
  | ["conc", cap, sts, defRaw, defNorm, fbRaw, fbNorm, sniRaw, sniNorm, conn] =>
    match cap.toNat? with
    | none => bad
    | some cap =>
      let parsed := (sts.splitOn "+").map (parseState cap)
      if !parsed.all Option.isSome then bad else
      let ss := parsed.filterMap id
      let optName (rawTok normTok : String) : Option (Option Name) :=
        if rawTok = "~" then some none else (normOf rawTok normTok).map some
      match optName defRaw defNorm, optName fbRaw fbNorm, normOf sniRaw sniNorm with
      | some d, some f, some sni =>
        let cfg : Cfg := { defaultName := d, fallbackName := f }
        let h : Hello := { sni := sni, conn := if conn = "~" then none else decStr conn }
        let spec :=
          if ss.any (fun s => (invCheck s).isSome) then "bad:cache-invariant-broken"
          else match impl with
            | _ :: _ => judgeConc cfg ss h impl
            | [] => "-"
        let tag := "C" ++ (if ss.length > 1 then "w" else "s") ++ (if h.sni = [] then "0" else "n") ++
          (match impl with
           | a :: _ => a
           | [] => "")
        reply "*" spec tag
      | _, _, _ => reply "normalisation-differs" "-" "!"
  | ["look", cap, st, now, views, defRaw, defNorm, fbRaw, fbNorm, sniRaw, sniNorm, conn, idna, stored] =>
    match cap.toNat?, now.toInt?, parseViews views, parseStored stored with
    | some cap, some now, some views, some stored =>
      match parseState cap st with
      | none => bad
      | some s =>
        let optName (rawTok normTok : String) : Option (Option Name) :=
          if rawTok = "~" then some none else (normOf rawTok normTok).map some
        match optName defRaw defNorm, optName fbRaw fbNorm, normOf sniRaw sniNorm with
        | some d, some f, some sni =>
          let e : Env := { now := now, view := fun h => (get? h views).getD { supported := false, nb := 0, na := 0, complete := false } }
          let cfg : Cfg := { defaultName := d, fallbackName := f }
          let h : Hello := { sni := sni, conn := if conn = "~" then none else decStr conn }
          let r : Req := { idna := if idna = "!" then none else decStr idna, stored := stored }
          let fc := fromCache e cfg s h
          let ans := getCert e cfg s h r
          let model := showFC fc ++ " " ++ showAns e ans
          let spec :=
            if (invCheck s).isSome then "bad:cache-invariant-broken"
            else match impl with
              | _ :: rest => judge e cfg s h r rest
              | [] => "-"
          let tag :=
            (match fc with
             | some (c, .matched) => if h.sni = [] then "I" else if c.names.contains h.sni then "X" else "W"
             | some (_, .defaulted) => "D"
             | none => "N") ++
            (match ans, fc with
             | .err, _ => (if r.idna.isNone then "i" else if (requestName cfg h r).any (fun n => !qualifies n) then "q" else "e")
             | .ok c, some (c', _) => if c = c' then (if e.good c then "g" else "b") else "s"
             | .ok _, none => "s") ++
            (if almostFull s then "a" else "") ++
            (if (keysTried cfg h).any (fun k => (listing s k).length > 1) then "m" else "")
          reply model spec tag
        | _, _, _ => reply "normalisation-differs" "-" "!"
    | _, _, _, _ => bad
  | ["mw", subj, wild] =>
    -- the real MatchWildcard against its model and against the reference relation
    match decStr subj, decStr wild with
    | some n, some w =>
      if !(n.all (fun c => c.toNat < 128) && w.all (fun c => c.toNat < 128)) then reply "*" "-" "" else
      -- the definition the function translator printed from the source on this run (CM/Generated/Fn)
      let g := CM.Gen.Fn.MatchWildcard n w
      let n := n.map lowerASCII
      let w := w.map lowerASCII
      let m := matchWildcard n w
      if CM.Gen.Fn.translated.contains "MatchWildcard" && g != m then reply "translated-definition-differs-from-model" "-" "!" else
      let ref := n == w || (candidates n).contains w
      let noEmpty := (splitDot n).all (fun l => !l.isEmpty)
      let spec := match impl with
        | [o] => if !noEmpty then "-" else if (o = "1") = ref then "ok" else "bad:matchwildcard-differs-from-covers"
        | _ => "-"
      reply (if m then "1" else "0") spec ((if m then "M" else "n") ++ (if noEmpty then "" else "e"))
    | _, _ => bad
  | _ => bad

end CM.Drv.C03
