import CM.Lib.Wire
import CM.Model.Renew
/-! Driver handler for C04. -/
namespace CM.Drv.C04
open CM.Wire CM.Renew

def optInt (s : String) : Option (Option Int) :=
  if s = "-" then some none else (s.toInt?).map some

def isPow2 (n : Nat) : Bool := n != 0 && (n &&& (n - 1)) == 0

/-- is Go's float product for this ratio provably the exact rational one? -/
def exactRatio (l : Int) (num den : Nat) : Bool :=
  isPow2 den && decide (l.natAbs * num < 2 ^ 53)

def showV : Verdict → String
  | .yes => "yes" | .no => "no" | .panics => "panics"

/-- executable form of `Must` (the statement's conditions) for a definite selected time -/
def mustB (i : In) : Bool :=
  let exp := expiresAt i.na
  inWindow i.now i.nb exp i.rnum i.rden || inWindow i.now i.nb exp 1 emergencyDen ||
  decide (exp - i.now < i.interval * intervalFactor) ||
  (!i.disableARI && match effSelected i with
    | .some t => decide (i.now > t - i.interval) || inWindow i.now i.nb exp 1 ariEmergencyDen
    | _ => false)

def handle (args impl : List String) : String :=
  match args with
  | ["nr", now, nb, na, rnum, rden, iv, dis, ws, we, sel] =>
    match now.toInt?, nb.toInt?, na.toInt?, rnum.toNat?, rden.toNat?, iv.toInt?, optInt ws, optInt we, optInt sel with
    | some now, some nb, some na, some rnum, some rden, some iv, some ws, some we, some sel =>
      let window := match ws, we with
        | some a, some b => some (a, b)
        | _, _ => none
      let i0 : In := { now := now, nb := nb, na := na, rnum := rnum, rden := rden, interval := iv
                       disableARI := dis = "1", window := window, selected := sel, rnd := 0 }
      let rmax : Int := match window with
        | some (a, b) => b / sec - (a / sec + 1) - 1
        | none => 0
      let i1 := { i0 with rnd := rmax }
      let v0 := needsRenewal i0
      let v1 := needsRenewal i1
      let exp := expiresAt na
      let l := exp - nb
      let (en, ed) := if rnum = 0 then (1, defaultRatioDen) else (rnum, rden)
      let near (num den : Nat) : Bool :=
        !exactRatio l num den && decide ((now - windowStart nb exp num den).natAbs ≤ 1000)
      let band := near en ed || near 1 emergencyDen || near 1 ariEmergencyDen
      let model := if v0 ≠ v1 then "*" else if band then "*" else showV v0
      -- the specification judges the implementation's verdict where it is determined
      let spec := match impl with
        | [o] =>
          if model = "*" then "ok"
          else if v0 = .panics then (if o = "panics" then "ok" else "bad:should-panic")
          else if o = "panics" then "bad:panics"
          else if mustB i0 && o = "no" then "bad:missed-renewal"
          else if !mustB i0 && o = "yes" then "bad:spurious-renewal"
          else "ok"
        | _ => "-"
      let tag := (if dis = "1" then "D" else "A") ++ (if window.isSome then "w" else "") ++
        (if sel.isSome then "s" else "") ++ ":" ++ model ++
        (if inWindow now nb exp rnum rden then "R" else "") ++
        (if inWindow now nb exp 1 emergencyDen then "E" else "") ++
        (if inWindow now nb exp 1 ariEmergencyDen then "T" else "") ++
        (if decide (exp - now < iv * intervalFactor) then "M" else "") ++
        (if decide (now > exp) then "X" else "")
      reply model spec tag
    | _, _, _, _, _, _, _, _, _ => bad
  | _ => bad

end CM.Drv.C04
