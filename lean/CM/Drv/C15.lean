import CM.Lib.Wire
import CM.Model.Safe
import CM.Model.Challenge
import CM.Generated.Fn
/-!
Driver handler for C15. Every line carries the whole history (issuers, challenge table,
present / clean-up events) followed by one request, hello or state query; the model runs
the history from the empty state and answers; the executable specification judges the
*implementation's* answer against the set of pending challenges (computed from the
events alone).

  (<cfg> = the node's configured issuers, `i` as *ACMEIssuer or `iw` behind the Issuer interface)
  http  <lm> <sp> <fd> <issuers> <chals> <hist> <node> <cfg> <dis> <method> <path> <host> … => pass | serve <body>
  alpn  <lm> <sp> <fd> <issuers> <chals> <hist> <node> <cfg> <sni> <protos> …             => normal | fail | cert <san> <chal#> <cached>
  state <lm> <sp> <fd> <issuers> <chals> <hist> <node>                                     => <memory keys> <token files>
-/
namespace CM.Drv.C15
open CM.Wire CM.Challenge

def splitList (tok : String) (sep : String) : List String :=
  if tok = "~" then [] else tok.splitOn sep

def allSome {α : Type} (l : List (Option α)) : Option (List α) :=
  l.foldr (fun x acc => match x, acc with
    | some a, some r => some (a :: r)
    | _, _ => none) (some [])

/-- "a:b,c:d" (hex code points) -/
def decMap (tok : String) : Option (List (Char × Char)) :=
  if tok = "-" then some [] else
  allSome ((tok.splitOn ",").map (fun p => match p.splitOn ":" with
    | [a, b] => match hexNat a, hexNat b with
      | some x, some y => some (Char.ofNat x, Char.ofNat y)
      | _, _ => none
    | _ => none))

def decSet (tok : String) : Option (List Char) :=
  if tok = "-" then some [] else
  allSome ((tok.splitOn ",").map (fun p => (hexNat p).map Char.ofNat))

def asciiLower (c : Char) : Char :=
  if CM.Safe.isUpperA c then Char.ofNat (c.toNat + 32) else c

/-- the sanitiser is C11's model; lower-casing / white space / simple folding of the
non-ASCII characters of the line come from Go as tables -/
def mkEnv (lm : List (Char × Char)) (sp : List Char) (fd : List (Char × Char)) : Env where
  safe := CM.Safe.safe
    { lower := fun c => match lm.lookup c with
        | some d => d
        | none => asciiLower c
      isSpace := fun c => c == ' ' || c == '\t' || c == '\n' || c == '\r' || c == Char.ofNat 11 ||
        c == Char.ofNat 12 || sp.contains c }
  fold := fun c => match fd.lookup c with
    | some d => d
    | none => asciiLower c

def decOptStr (tok : String) : Option (Option Str) :=
  if tok = "~" then some none else (decStr tok).map some

def decType : String → Option CType
  | "h" => some .http01 | "a" => some .tlsalpn01 | "d" => some .dns01 | "o" => some .other
  | _ => none

def decChal (tok : String) : Option Chal :=
  match tok.splitOn ":" with
  | [t, ip, ident, rev, idna, token, ka] =>
    match decType t, decStr ident, decOptStr rev, decStr token, decStr ka with
    | some t, some ident, some rev, some token, some ka =>
      some { typ := t, isIP := ip = "1", ident := ident, rev := rev, idnaOK := idna = "1"
             token := token, keyAuth := ka }
    | _, _, _, _, _ => none
  | _ => none

def decIssuer (tok : String) : Option Issuer :=
  match tok.splitOn ":" with
  | [ca, t] => match decStr ca, decOptStr t with
    | some ca, some t => some { ca := ca, test := t }
    | _, _ => none
  | _ => none

structure RawEv where
  isPresent : Bool
  node : Nat
  iss : Nat
  test : Bool
  chal : Nat

def decEv (tok : String) : Option RawEv :=
  match tok.splitOn ":" with
  | [k, n, i, t, c] => match n.toNat?, i.toNat?, c.toNat? with
    | some n, some i, some c => some { isPresent := k = "p", node := n, iss := i, test := t = "1", chal := c }
    | _, _, _ => none
  | _ => none

structure World where
  E : Env
  issuers : List Issuer
  chals : List Chal
  evs : List Ev
  /-- pending challenges computed from the events alone: (node, prefix, chal #) -/
  pending : List (Nat × Str × Nat)

def mkWorld (lm sp fd is ch hist : String) : Option World := do
  let lm ← decMap lm
  let sp ← decSet sp
  let fd ← decMap fd
  let issuers ← allSome ((splitList is ",").map decIssuer)
  let chals ← allSome ((splitList ch ",").map decChal)
  let raws ← allSome ((splitList hist ",").map decEv)
  let evs ← allSome (raws.map (fun r => do
    let i ← issuers[r.iss]?
    let c ← chals[r.chal]?
    pure (if r.isPresent then Ev.present r.node (presentPrefix i r.test) c
          else Ev.cleanUp r.node (presentPrefix i r.test) c)))
  let pending ← raws.foldlM (fun (acc : List (Nat × Str × Nat)) r => do
    let i ← issuers[r.iss]?
    let x := (r.node, presentPrefix i r.test, r.chal)
    pure (if r.isPresent then x :: acc else acc.erase x)) []
  pure { E := mkEnv lm sp fd, issuers := issuers, chals := chals, evs := evs, pending := pending }

def cfgPrefixes (w : World) (cfg : String) : Option (List Str) := do
  -- "<issuer#>" = configured as *ACMEIssuer; "<issuer#>w" = configured behind the Issuer
  -- interface (a wrapper reporting the inner IssuerKey)
  let is ← allSome ((splitList cfg ",").map (fun t =>
    if t.endsWith "w" then (do let i ← (t.dropRight 1).toNat?; let x ← w.issuers[i]?; pure (ifaceView x))
    else (do let i ← t.toNat?; w.issuers[i]?)))
  pure (searchPrefixes is)

/-- pending challenges visible to `node` searching `ps`, with their table index -/
def visible (w : World) (node : Nat) (ps : List Str) : List (Nat × Chal) :=
  w.pending.filterMap (fun (n0, p0, ci) =>
    if n0 = node ∨ p0 ∈ ps then (w.chals[ci]?).map (fun c => (ci, c)) else none)

/-! executable specification (judges the implementation's answer) -/

def specHttp (w : World) (node : Nat) (ps : List Str) (dis : Bool) (r : HttpReq) (impl : List String) : String :=
  let vis := visible w node ps
  match impl with
  | ["pass"] =>
    -- liveness half: the CA's own request for a pending visible challenge must be answered
    if !dis && vis.any (fun (_, c) => challengeKey c == c.ident && r.method == GET && r.path == resourcePath c &&
        r.host == c.ident) then "bad:pending-challenge-not-served" else "ok"
  | ["serve", b] =>
    match decStr b with
    | none => "bad-op"
    | some body =>
      if dis then "bad:served-while-disabled"
      else if r.method != GET then "bad:served-to-non-GET"
      else if vis.any (fun (_, c) => body == c.keyAuth && r.path == resourcePath c && eqFold w.E r.host c.ident)
      then "ok"
      else if vis.any (fun (_, c) => body == c.keyAuth && r.path == resourcePath c) then "bad:served-to-other-host"
      else if vis.any (fun (_, c) => body == c.keyAuth) then "bad:served-on-other-path"
      else if w.chals.any (fun c => body == c.keyAuth) then "bad:served-challenge-not-pending-here"
      else "bad:served-unknown-body"
  | _ => "bad-op"

def specAlpn (w : World) (node : Nat) (ps : List Str) (h : Hello) (impl : List String) : String :=
  let vis := visible w node ps
  let branch := h.sni ≠ [] ∧ h.protos = [acmeTLS1]
  let mine := vis.any (fun (_, c) => h.sni == challengeKey c && c.idnaOK)
  match impl with
  | ["normal"] => if branch ∧ mine then "bad:pending-challenge-not-served" else "ok"
  | ["fail"] =>
    if ¬ branch then "bad:ordinary-hello-not-on-normal-path"
    else if mine then "bad:pending-challenge-not-served" else "ok"
  | ["cert", san, idx, _] =>
    if h.protos ≠ [acmeTLS1] then "bad:challenge-cert-for-other-alpn"
    else if h.sni = [] then "bad:challenge-cert-without-sni"
    else match idx.toNat?, decStr san with
      | some i, some san =>
        match vis.find? (fun (ci, _) => ci == i) with
        | some (_, c) =>
          if !(eqFold w.E (challengeKey c) h.sni) then "bad:challenge-cert-for-other-name"
          else if san != c.ident then "bad:challenge-cert-san"
          else "ok"
        | none => "bad:challenge-cert-not-pending-here"
      | _, _ => "bad:challenge-cert-unknown-key-authorization"
  | _ => "bad-op"

def showHttp : HttpResp → String
  | .pass => "pass"
  | .serve b => "serve " ++ encStr b

def idxOf (w : World) (c : Chal) : String :=
  match w.chals.findIdx? (· == c) with
  | some i => toString i
  | none => "?"

def showAlpn (w : World) : AlpnResp → String
  | .normal => "normal"
  | .fail => "fail"
  | .cert c d => "cert " ++ encStr c.ident ++ " " ++ idxOf w c ++ " " ++ (if d then "1" else "0")

def tagLookup (w : World) (S : State) (n : Nat) (ps : List Str) (name : Str) : String :=
  match S.mem n name with
  | some _ => "mem"
  | none => match ps.findSome? (fun p => S.store p (w.E.safe name)) with
    | none => "miss"
    | some c => if eqFold w.E (challengeKey c) name then "sto" else "sto-other-name"

def sufHttp : HttpResp → String
  | .serve _ => ":serve"
  | .pass => ":pass"

def sufAlpn : AlpnResp → String
  | .cert _ true => ":cached"
  | .cert _ false => ":made"
  | .fail => ":fail"
  | .normal => ":normal"

def sortStrs (l : List String) : List String := (l.toArray.qsort (· < ·)).toList

def joinOr (l : List String) : String := if l = [] then "~" else String.intercalate "," l

def handle (args impl : List String) : String :=
  match args with
  | "http" :: lm :: sp :: fd :: is :: ch :: hist :: node :: cfg :: dis :: m :: path :: host :: _ =>
    match mkWorld lm sp fd is ch hist, node.toNat?, decStr m, decStr path, decStr host with
    | some w, some n, some m, some path, some host =>
      match cfgPrefixes w cfg, run w.E State.empty w.evs with
      | some ps, some S =>
        let r : HttpReq := { method := m, path := path, host := host }
        let d := dis = "1"
        let ans := httpAnswer w.E S n ps d r
        -- the TRANSLATED `LooksLikeHTTPChallenge` (CM/Generated/Fn) beside the model's two tests
        if CM.Gen.Fn.translated.contains "LooksLikeHTTPChallenge" &&
            CM.Gen.Fn.LooksLikeHTTPChallenge ⟨m, ⟨path⟩⟩ != (m == GET && basePath.isPrefixOf path) then
          reply "translated-definition-differs-from-model" "-" "!" else
        let tag := if d then "dis" else if m != GET then "meth"
          else if !(basePath.isPrefixOf path) then "nopfx"
          else tagLookup w S n ps host ++ sufHttp ans
        reply (showHttp ans) (specHttp w n ps d r impl) tag
      | _, _ => bad
    | _, _, _, _, _ => bad
  | "alpn" :: lm :: sp :: fd :: is :: ch :: hist :: node :: cfg :: sni :: protos :: _ =>
    match mkWorld lm sp fd is ch hist, node.toNat?, decStr sni, allSome ((splitList protos ",").map decStr) with
    | some w, some n, some sni, some protos =>
      match cfgPrefixes w cfg, run w.E State.empty w.evs with
      | some ps, some S =>
        let h : Hello := { sni := sni, protos := protos }
        let ans := alpnAnswer w.E S n ps h
        let tag := if sni = [] then "nosni" else if protos ≠ [acmeTLS1] then "alpn:" ++ toString protos.length
          else tagLookup w S n ps sni ++ sufAlpn ans
        reply (showAlpn w ans) (specAlpn w n ps h impl) tag
      | _, _ => bad
    | _, _, _, _ => bad
  | "solve" :: lm :: sp :: fd :: ch :: m :: path :: host :: _ =>
    -- the exported SolveHTTPChallenge, handed one challenge by its caller
    match decMap lm, decSet sp, decMap fd, decChal ch, decStr m, decStr path, decStr host with
    | some lm, some sp, some fd, some c, some m, some path, some host =>
      let E := mkEnv lm sp fd
      let r : HttpReq := { method := m, path := path, host := host }
      let ans : HttpResp := if solves E r c then .serve c.keyAuth else .pass
      let spec := match impl with
        | ["pass"] => if m == GET && path == resourcePath c && host == c.ident then "bad:pending-challenge-not-served" else "ok"
        | ["serve", b] =>
          if m != GET then "bad:served-to-non-GET"
          else if path != resourcePath c then "bad:served-on-other-path"
          else if !(eqFold E host c.ident) then "bad:served-to-other-host"
          else if decStr b != some c.keyAuth then "bad:served-unknown-body"
          else "ok"
        | _ => "bad-op"
      reply (showHttp ans) spec ("solve" ++ sufHttp ans)
    | _, _, _, _, _, _, _ => bad
  | ["state", lm, sp, fd, is, ch, hist, node] =>
    match mkWorld lm sp fd is ch hist, node.toNat? with
    | some w, some n =>
      match run w.E State.empty w.evs with
      | some S =>
        -- the model's two places, listed over the keys / files the challenge table can produce
        let keys := (w.chals.map challengeKey).eraseDups
        let memKeys := keys.filter (fun k => (S.mem n k).isSome)
        let pfxs := (w.issuers.flatMap (fun i => [presentPrefix i false, presentPrefix i true])).eraseDups
        let files := pfxs.flatMap (fun p => (keys.map w.E.safe).eraseDups.filterMap (fun f =>
          (S.store p f).map (fun _ => p ++ "/challenge_tokens/".toList ++ f ++ ".json".toList)))
        let out := joinOr (sortStrs (memKeys.map encStr)) ++ " " ++ joinOr (sortStrs (files.map encStr))
        -- specification: exactly the pending challenges are in the two places
        let wantMem := (w.pending.filterMap (fun (n0, _, ci) =>
          if n0 = n then (w.chals[ci]?).map (fun c => encStr (challengeKey c)) else none)).eraseDups
        let wantFiles := (w.pending.filterMap (fun (_, p0, ci) => (w.chals[ci]?).map (fun c =>
          encStr (p0 ++ "/challenge_tokens/".toList ++ w.E.safe (challengeKey c) ++ ".json".toList)))).eraseDups
        let spec := match impl with
          | [m, f] =>
            if m ≠ joinOr (sortStrs wantMem) then "bad:memory-differs-from-pending"
            else if f ≠ joinOr (sortStrs wantFiles) then "bad:token-files-differ-from-pending"
            else "ok"
          | _ => "bad-op"
        reply out spec ("state:" ++ toString w.pending.length)
      | none => bad
    | _, _ => bad
  | _ => bad

end CM.Drv.C15
