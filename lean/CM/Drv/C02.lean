import CM.Lib.Wire
import CM.Model.Handshake
import CM.Generated.Fn
/-! Driver handler for C02.

`q <name>`  — the model of SubjectQualifiesForCert on one string.
`hs od fn mg af ar idna allow <name> tr <subject> hit dflt managed due tlpos revoked aridue M tok* (K tok*)* => res`
  — one handshake of the implementation: configuration class, name facts, the certificate subject
  that belongs to the name (`tr` = 0: no `SubjectTransformer`, the subject is the name; 1: a
  transformer, the wildcard variant of the name has the wildcard of the subject as its subject;
  2: a transformer that gives the name and its wildcard variant the same subject). The classes in
  the tokens (`n`, `w`, `o`) are relative to the SUBJECT (what storage and the issuer are asked
  for); `idna`, `allow`, the syntax check and the decision function's argument are about the NAME
  (what the client sent — the thing the policy permits or does not permit). Then what the handshake
  sees when it looks at the cache / at its certificate (probed on the real structures), the
  observed effect sequence of the handshake's goroutine (`M`) and of every goroutine it
  started (`K`, in canonical order), and the result class. The driver
   (i) judges the observed effects by the executable specification of C02, and
   (ii) walks the model program `getCert` along them: effects the doubles can see must match
        the next observed token and take its response; effects on in-process state take the
        probed value, or — where the probe cannot know (other goroutines, retries) — both
        values are tried. The answer is the result class of the model run that reproduces
        the observation (`nomatch` if there is none).
-/
namespace CM.Drv.C02
open CM.Wire CM.Prog CM.Handshake

structure Tok where
  kind : String
  cls : String
  val : Bool
  deriving Repr, BEq

def parseTok (s : String) : Tok :=
  match s.splitOn ":" with
  | [k] => ⟨k, "", false⟩
  | [k, v] => ⟨k, "", v == "1"⟩
  | [k, c, v] => ⟨k, c, v == "1"⟩
  | _ => ⟨"?", "", false⟩

structure Pins where
  hit : Bool
  dflt : Bool
  managed : Bool
  due : Bool
  tlpos : Bool
  revoked : Bool
  aridue : Bool

structure St where
  main : List Tok
  kids : List (List Tok)
  ownLoad : Bool := false
  fresh : Bool := false
  looked : Bool := false
  reRes : Nat := Res.enc .err

structure Ctx where
  c : Cfg
  f : Facts
  pins : Pins
  same : Bool := false   -- a transformer maps the name and its wildcard variant to one subject

/-- with a subject transformer the model's `hello` / `wild` are the subjects of the name and of
its wildcard variant; when they are one and the same string, so are their storage keys -/
def nmMatches (same : Bool) (n : Nm) (cls : String) : Bool :=
  match n with
  | .hello => cls == "n"
  | .wild => cls == "w" || (same && cls == "n")
  | .cert0 => cls == "n" || cls == "w"

/-- how an effect relates to the observation -/
inductive How
  | obs (kind : String) (nm : Option Nm)   -- seen by a double: must be the next token
  | pin (v : Bool)                          -- in-process state with a probed value
  | both                                    -- in-process state the probe cannot know
  | skip                                    -- no response
  | re                                      -- a re-entry

def how (x : Ctx) (st : St) : Eff → How
  | .gate => .obs "gate" none
  | .mgrErr => .obs "mgrErr" none
  | .mgrCert => .obs "mgrCert" none
  | .load n => .obs "load" (some n)
  | .loadNX n => .obs "loadNX" (some n)
  | .has n => .obs "has" (some n)
  | .lock => .obs "lock" none
  | .issue n => .obs "issue" (some n)
  | .save => .obs "save" none
  | .ariMeta => .obs "ariMeta" none
  | .cacheHit => if st.looked then .both else .pin x.pins.hit
  | .cacheDefault => .pin x.pins.dflt
  | .managed => .pin (st.fresh || x.pins.managed)
  | .needsRenewal => .pin (!st.fresh && x.pins.due)
  | .timeLeftPos => .pin (st.fresh || x.pins.tlpos)
  | .revoked => .pin (!st.fresh && x.pins.revoked)
  | .ariDue => .pin (!st.fresh && x.pins.aridue)
  | .reenter => .re
  | .keyCompromise | .storedDue | .loadChan | .obtainChan | .waitLoad | .waitObtain | .retry => .both
  | _ => .skip

def upd (st : St) : Eff → St
  | .regLoad => { st with ownLoad := true }
  | .unregLoad => { st with ownLoad := false }
  | .fresh => { st with fresh := true }
  | .cacheHit => { st with looked := true }
  | _ => st

/-- all model runs of `p` consistent with the observation; `re` replays a re-entry -/
def explore (x : Ctx) (re : St → List (Nat × St)) : Prog Eff → St → List (Nat × St)
  | .done r, st => [(r, st)]
  | .eff e k, st =>
    match how x st e with
    | .obs kind nm =>
      match st.main with
      | [] => []
      | t :: rest =>
        if t.kind == kind && (match nm with | some n => nmMatches x.same n t.cls | none => true) then
          explore x re (k t.val) { upd st e with main := rest }
        else []
    | .pin v => explore x re (k v) (upd st e)
    | .both => explore x re (k true) (upd st e) ++ explore x re (k false) (upd st e)
    | .skip => explore x re (k false) (upd st e)
    | .re =>
      (re st).flatMap fun (r, st') =>
        explore x re (k (r != Res.enc .err)) { st' with reRes := r, ownLoad := st.ownLoad }
  | .spawn c k, st =>
    -- the goroutine's trace is one of the unclaimed ones, or it performed nothing observable
    let cands : List (List Tok × List (List Tok)) :=
      ([], st.kids) :: (List.range st.kids.length).map (fun i => (st.kids.getD i [], st.kids.eraseIdx i))
    cands.flatMap fun (tr, others) =>
      ((explore x re c { st with main := tr, kids := others, ownLoad := false }).filter (fun o => o.2.main.isEmpty)).flatMap
        fun (_, stc) => explore x re k { st with kids := stc.kids }
  | .sub p k, st =>
    (explore x re p st).flatMap fun (r, st') => explore x re (k r) st'

def exploreFuel (x : Ctx) : Nat → Prog Eff → St → List (Nat × St)
  | 0, p, st => explore x (fun _ => []) p st
  | n + 1, p, st =>
    explore x (fun s => exploreFuel x n (reify (reentry x.c x.f s.ownLoad)) { s with looked := true }) p st

def resName (r : Nat) : String :=
  match Res.dec r with
  | .cur => "cur" | .new => "new" | .mgr => "mgr" | .dflt => "dflt" | .re => "re" | .empty => "empty"
  | .err => "err" | .none => "none"

/-- result classes of the accepted model runs (a re-entry's result is what the re-entry returned) -/
def replay (x : Ctx) (main : List Tok) (kids : List (List Tok)) : List String :=
  let outs := exploreFuel x 3 (reify (getCert x.c x.f)) { main := main, kids := kids }
  let ok := outs.filter (fun o => o.2.main.isEmpty && o.2.kids.isEmpty)
  (ok.map fun (r, st) => resName (if r == Res.enc .re then st.reRes else r)).eraseDups

/-! ### the executable specification (judges the implementation's effects, not the model's) -/

def isGuardedTok (t : Tok) : Bool := t.kind == "issue" || t.kind == "load"

/-- first violation in one goroutine's effect sequence, if any -/
def specThread (od fn allow q : Bool) : List Tok → Bool → Option String
  | [], _ => none
  | t :: rest, permitted =>
    if t.kind == "issue" && !od then some "issuance-with-on-demand-off"
    -- the policy was asked about the name of the handshake: an order for any OTHER name (the
    -- wildcard whose stored certificate serves it, say) was never permitted by anybody
    else if t.kind == "issue" && t.cls != "n" then some "issuance-for-a-name-the-policy-was-not-asked-about"
    else if od && isGuardedTok t && !q then some ("not-qualifying-" ++ t.kind)
    else if od && isGuardedTok t && !fn && !allow then some ("not-on-allowlist-" ++ t.kind)
    else if od && isGuardedTok t && fn && !permitted then some ("ungated-" ++ t.kind)
    else specThread od fn allow q rest (if t.kind == "gate" then (permitted || t.val) else permitted)

def spec (od fn allow q : Bool) (threads : List (List Tok)) : String :=
  match threads.filterMap (fun t => specThread od fn allow q t false) with
  | [] => "ok"
  | v :: _ => "bad:" ++ v

/-- split `M a b K c K d e` into threads -/
def splitThreads : List String → List (List Tok) → List Tok → List (List Tok)
  | [], acc, cur => (acc ++ [cur])
  | "K" :: rest, acc, cur => splitThreads rest (acc ++ [cur]) []
  | t :: rest, acc, cur => splitThreads rest acc (cur ++ [parseTok t])

def b (s : String) : Bool := s == "1"

def handle (args impl : List String) : String :=
  match args with
  | ["q", name] =>
    match decStr name with
    | some s =>
      let r := qualifies s
      -- the definition the function translator printed from the source on this run (CM/Generated/Fn)
      if CM.Gen.Fn.translated.contains "SubjectQualifiesForCert" && CM.Gen.Fn.SubjectQualifiesForCert s != r then
        reply "translated-definition-differs-from-model" "-" "!" else
      reply (if r then "1" else "0") "-" (if r then "" else "rejects")
    | none => bad
  | "hs" :: od :: fn :: mg :: af :: ar :: idna :: allow :: name :: tr :: _subject :: hit :: dflt :: managed :: due :: tlpos :: revoked :: aridue :: "M" :: toks =>
    match decStr name with
    | none => bad
    | some nm =>
      let q := qualifies nm
      let x : Ctx := { c := ⟨b od, b fn, b mg, b af, b ar⟩, f := ⟨b idna, q, b allow⟩,
                       pins := ⟨b hit, b dflt, b managed, b due, b tlpos, b revoked, b aridue⟩,
                       same := tr == "2" }
      let threads := splitThreads toks [] []
      let main := threads.headD []
      let kids := threads.drop 1
      let verdict := if b idna then spec (b od) (b fn) (b allow) q threads
                     else (if threads.all (fun t => t.all (fun k => !isGuardedTok k)) then "ok" else "bad:effects-for-unconvertible-name")
      let results := replay x main kids
      let implRes := impl.headD "?"
      let model :=
        -- `a+b`: the certificate served belongs to both classes (e.g. the cached certificate is
        -- also the default one)
        if (implRes.splitOn "+").any results.contains then implRes
        else match results with
          | [] => "nomatch"
          | r :: _ => r
      let tag := if threads.all List.isEmpty then "" else
        (if tr == "0" then "" else "tr" ++ tr ++ "/") ++ implRes ++ "/" ++ toString kids.length ++ "k/" ++ toString (threads.foldl (fun n t => n + t.length) 0)
      reply model verdict tag
  | _ => bad

end CM.Drv.C02
