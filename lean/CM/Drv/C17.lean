import CM.Lib.Wire
import CM.Model.RateLimit
import CM.Generated.Fn
/-!
Driver handler for C17.

Request: `trace <N> <W> <script event>* => <observation>*` — one whole history per line.

Script events (`@t` = virtual instant in ns since `NewRateLimiter` returned):
  `c<w>@t` waiter w calls Wait      `x<w>@t` w's context is cancelled     `a<w>@t` w calls Allow
  `m<n>@t` SetMaxEvents(n)          `w<d>@t` SetWindow(d)                 `q@t` read ring+cursor
  `e@t`    Stop
The harness processes an event at `t` as: sleep until `t`, let every goroutine block
(`synctest.Wait`), report the returns seen so far sorted by (instant, waiter); act; let every
goroutine block again; report. The predictor below does exactly that on the model: it is
the LTS `CM.RateLimit.step` driven by the maximal-progress scheduler (an enabled step of the
loop goroutine is taken at once; time advances only when none is enabled) with waiters
served in the order they blocked (Go's channel receive queue is FIFO).

Observations: `A<w>@t` Wait returned nil; `C<w>@t` Wait returned Canceled; `L<w>:0|1` Allow;
`M`/`M!` `W`/`W!` setter returned / panicked; `Q:<cursor>:<slot>,…` (`z` = zero time); `E`.

The specification verdict is computed from the IMPLEMENTATION's observations alone (plus the
script): sliding-window bound per period of constant configuration (`checkAdm`, the function
`C17_bound_trace` is about), cancellation prompt and without a slot, zero window never
sleeps, ring = last admissions, `SetMaxEvents` keeps the newest.
-/
namespace CM.Drv.C17
open CM.Wire CM.RateLimit

inductive SEv
  | call (w : Nat) | cancel (w : Nat) | allow (w : Nat)
  | setMax (n : Nat) | setWin (d : Nat) | read | stop

def kind (s : String) : String := String.ofList (s.toList.take 1)
def rest (s : String) : String := String.ofList (s.toList.drop 1)

/-- parse `<k><arg>@<t>` -/
def parseEv (tok : String) : Option (SEv × Nat) :=
  match tok.splitOn "@" with
  | [a, t] =>
    match t.toNat? with
    | none => none
    | some t =>
      let k := kind a
      let arg := (rest a).toNat?
      if k = "q" ∧ a.length = 1 then some (.read, t)
      else if k = "e" ∧ a.length = 1 then some (.stop, t)
      else match arg with
        | none => none
        | some n =>
          if k = "c" then some (.call n, t)
          else if k = "x" then some (.cancel n, t)
          else if k = "a" then some (.allow n, t)
          else if k = "m" then some (.setMax n, t)
          else if k = "w" then some (.setWin n, t)
          else none
  | _ => none

def parseScript (toks : List String) : Option (List (SEv × Nat)) :=
  toks.foldr (fun tk acc => match parseEv tk, acc with
    | some e, some l => some (e :: l)
    | _, _ => none) (some [])

/-! ### predictor -/

structure Sim where
  st    : St
  q     : List Nat                      -- waiters blocked in Wait, in arrival order
  batch : List (Nat × Nat × Bool)       -- returns not yet reported: (instant, waiter, admitted?)
  out   : List String                   -- reversed
  stuck : Bool

def Sim.doStep (m : Sim) (e : Ev) : Sim :=
  match step m.st e with
  | some s' => { m with st := s' }
  | none => { m with stuck := true }

/-- run the loop goroutine and the hand-offs until nothing more can happen at this instant -/
def settle : Nat → Sim → Sim
  | 0, m => m
  | f + 1, m =>
    if m.stuck then m else
    match m.st.phase with
    | .idle => settle f (m.doStep .compute)
    | .sleeping t _ => if t ≤ m.st.now then settle f (m.doStep .fire) else m
    | .offering _ =>
      match m.q with
      | w :: q' =>
        let m1 := m.doStep (.handoff w)
        settle f { m1 with q := q', batch := (m.st.now, w, true) :: m1.batch }
      | [] => m
    | .recording _ => settle f (m.doStep .record)
    | .stopped => m

def Sim.settleAll (m : Sim) : Sim := settle (5 * (m.q.length + 2)) m

def Sim.tickTo (m : Sim) (t : Nat) : Sim := m.doStep (.tick (t - m.st.now))

/-- let virtual time pass until `t`, waking the loop goroutine whenever its timer is due -/
def advanceTo : Nat → Nat → Sim → Sim
  | 0, _, m => { m with stuck := true }
  | f + 1, t, m =>
    let m := m.settleAll
    match m.st.phase with
    | .sleeping t' _ => if t' ≤ t then advanceTo f t (m.tickTo t') else m.tickTo t
    | _ => m.tickTo t

def showSlot : Option Nat → String
  | none => "z"
  | some t => toString t

def showRing (ring : List (Option Nat)) (cursor : Nat) : String :=
  "Q:" ++ toString cursor ++ ":" ++ (if ring = [] then "-" else String.intercalate "," (ring.map showSlot))

def leB (a b : Nat × Nat × Bool) : Bool := a.1 < b.1 || (a.1 == b.1 && a.2.1 ≤ b.2.1)

def Sim.flush (m : Sim) : Sim :=
  let sorted := m.batch.mergeSort leB
  let toks := sorted.map (fun (t, w, ok) => (if ok then "A" else "C") ++ toString w ++ "@" ++ toString t)
  { m with batch := [], out := toks.reverse ++ m.out }

def Sim.emit (m : Sim) (s : String) : Sim := { m with out := s :: m.out }

def isOffering : Phase → Bool
  | .offering _ => true
  | _ => false

def applyEv (m : Sim) (e : SEv) : Sim :=
  match e with
  | .call w => { m.doStep (.call w) with q := m.q ++ [w] }
  | .cancel w =>
    if m.q.contains w then
      let m1 := m.doStep (.cancel w)
      { m1 with q := m.q.erase w, batch := (m.st.now, w, false) :: m1.batch }
    else m
  | .allow w =>
    let hit := isOffering m.st.phase
    (m.doStep (.allow w)).emit ("L" ++ toString w ++ ":" ++ (if hit then "1" else "0"))
  | .setMax n =>
    -- the definition the function translator printed from the source on this run (CM/Generated/Fn),
    -- run beside the model's step; a disagreement spoils the token, hence the comparison
    let g := CM.Gen.Fn.RingBufferRateLimiter_SetMaxEvents (τ := Option Nat)
      ⟨Int.ofNat m.st.W, m.st.ring, Int.ofNat m.st.cursor⟩ (Int.ofNat n)
    let agree := !(CM.Gen.Fn.translated.contains "RingBufferRateLimiter.SetMaxEvents") ||
      (match step m.st (.setMax n), g with
        | some s', some r => r.ring == s'.ring && r.cursor == Int.ofNat s'.cursor
        | none, none => true
        | _, _ => false)
    let sfx := if agree then "" else "-translated-definition-differs"
    match step m.st (.setMax n) with
    | some s' => { m with st := s' }.emit ("M" ++ sfx)
    | none => m.emit ("M!" ++ sfx)
  | .setWin d =>
    match step m.st (.setWindow d) with
    | some s' => { m with st := s' }.emit "W"
    | none => m.emit "W!"
  | .read => m.emit (showRing m.st.ring m.st.cursor)
  | .stop => (m.doStep .stop).emit "E"

def simulate (N W : Nat) (script : List (SEv × Nat)) : Sim :=
  let m0 : Sim := { st := init N W 0, q := [], batch := [], out := [], stuck := false }
  script.foldl (fun m (e, t) =>
    let m := (advanceTo (m.q.length + 3) t m).settleAll.flush
    ((applyEv m e).settleAll).flush) m0

def modelOut (m : Sim) : String :=
  if m.stuck then "STUCK" else String.intercalate " " m.out.reverse

/-! ### specification on the implementation's observations -/

structure Judge where
  N : Nat
  W : Nat
  seg : List Nat := []          -- admissions of the current period, newest first
  all : List Nat := []          -- all admissions
  changed : Bool := false
  done : List Nat := []         -- waiters that returned
  ms : List Nat                 -- arguments of the SetMaxEvents calls still to come
  wsArgs : List Nat             -- arguments of the SetWindow calls still to come
  lastQ : Option (List (Option Nat)) := none   -- view at the last `Q` if nothing happened since
  pendingM : Option (List (Option Nat) × Nat) := none  -- (view before, n) of a `Q M` just seen
  pendingW : Option (List (Option Nat)) := none        -- view before a `Q W` just seen
  bad : Option String := none

def lookupT (l : List (Nat × Nat)) (w : Nat) : Option Nat := (l.find? (fun p => p.1 == w)).map (·.2)

def parseSlot (s : String) : Option (Option Nat) :=
  if s = "z" then some none else s.toNat?.map some

def parseQ (tok : String) : Option (Nat × List (Option Nat)) :=
  match tok.splitOn ":" with
  | ["Q", c, r] =>
    match c.toNat? with
    | none => none
    | some c =>
      if r = "-" then some (c, []) else
      (r.splitOn ",").foldr (fun s acc => match parseSlot s, acc with
        | some v, some l => some (v :: l)
        | _, _ => none) (some []) |>.map (fun l => (c, l))
  | _ => none

/-- parse `A<w>@t` / `C<w>@t` -/
def parseRet (tok : String) : Option (Nat × Nat) :=
  match (rest tok).splitOn "@" with
  | [w, t] => match w.toNat?, t.toNat? with
    | some w, some t => some (w, t)
    | _, _ => none
  | _ => none

def count (l : List Nat) (v : Nat) : Nat := (l.filter (· == v)).length

def slotsBacked (ring : List (Option Nat)) (all : List Nat) : Bool :=
  ring.all (fun o => match o with
    | none => true
    | some v => count (ring.filterMap id) v ≤ count all v)

/-- the newest `min(N, k)` slots of the view are the last `k` admissions of the period, in order -/
def ringIsLastAdm (v : List (Option Nat)) (seg : List Nat) : Bool :=
  let k := min v.length seg.length
  v.drop (v.length - k) == ((seg.take k).reverse.map some)

def Judge.fail (j : Judge) (why : String) : Judge :=
  match j.bad with
  | some _ => j
  | none => { j with bad := some why }

def Judge.admission (j : Judge) (w t : Nat) (callT : Option Nat) (cancelT : Option Nat := none) : Judge :=
  let j := if j.done.contains w then j.fail "double-return" else j
  let j := match cancelT with
    | some c => if c < t then j.fail "admitted-after-cancel" else j
    | none => j
  let j := match callT with
    | none => j.fail "admitted-without-call"
    | some c => if t < c then j.fail "admitted-before-call" else
      -- zero window: no sleeping, except for the one iteration scheduled before a change
      if j.W = 0 ∧ t ≠ c ∧ ¬ (j.changed ∧ (j.seg = [] ∨ j.seg.getLast? = some t)) then j.fail "zero-window-slept" else j
  let j := if checkAdm j.N j.W j.seg t then j else j.fail "window-exceeded"
  { j with seg := t :: j.seg, all := t :: j.all, done := w :: j.done, lastQ := none, pendingM := none, pendingW := none }

def judgeTok (calls cancels allows : List (Nat × Nat)) (j : Judge) (tok : String) : Judge :=
  let k := kind tok
  if k = "A" then
    match parseRet tok with
    | some (w, t) => j.admission w t (lookupT calls w) (lookupT cancels w)
    | none => j.fail "unparsable"
  else if k = "C" then
    match parseRet tok with
    | some (w, t) =>
      let j := if j.done.contains w then j.fail "double-return" else j
      let j := match lookupT cancels w with
        | none => j.fail "cancel-without-request"
        | some c => if t ≠ c then j.fail "cancel-not-prompt" else j
      { j with done := w :: j.done }
    | none => j.fail "unparsable"
  else if k = "L" then
    match (rest tok).splitOn ":" with
    | [w, r] =>
      match w.toNat? with
      | some w =>
        if r = "1" then
          match lookupT allows w with
          | some t => j.admission w t (some t)
          | none => j.fail "allow-without-call"
        else { j with done := w :: j.done }
      | none => j.fail "unparsable"
    | _ => j.fail "unparsable"
  else if k = "M" then
    match j.ms with
    | [] => j.fail "unexpected-setmax"
    | n :: rest =>
      let j := { j with ms := rest }
      let invalid := n = 0 ∧ j.W ≠ 0
      if tok = "M!" then
        (if invalid then j else j.fail "setmax-panicked") |> fun j => { j with lastQ := none, pendingM := none, pendingW := none }
      else if invalid then j.fail "invalid-config-accepted"
      else
        let pm := j.lastQ.map (fun v => (v, n))
        if n = j.N then { j with lastQ := none, pendingM := pm, pendingW := none }
        else { j with N := n, seg := [], changed := true, lastQ := none, pendingM := pm, pendingW := none }
  else if k = "W" then
    match j.wsArgs with
    | [] => j.fail "unexpected-setwindow"
    | d :: rest =>
      let j := { j with wsArgs := rest, pendingW := j.lastQ, lastQ := none, pendingM := none }
      let invalid := j.N = 0 ∧ d ≠ 0
      if tok = "W!" then (if invalid then j else j.fail "setwindow-panicked")
      else if invalid then j.fail "invalid-config-accepted"
      else if d = j.W then j
      else { j with W := d, seg := [], changed := true }
  else if k = "Q" then
    match parseQ tok with
    | none => j.fail "unparsable"
    | some (c, ring) =>
      let v := view ring c
      let j := if ring.length ≠ j.N then j.fail "ring-length" else j
      let j := if ¬ (c < ring.length ∨ (ring = [] ∧ c = 0)) then j.fail "cursor-outside-ring" else j
      let j := if slotsBacked ring j.all then j else j.fail "slot-without-admission"
      let j := if ringIsLastAdm v j.seg then j else j.fail "ring-not-last-admissions"
      let j := match j.pendingM with
        | some (before, n) => if v == resizeSpec before n then j else j.fail "resize-not-newest"
        | none => j
      -- a window change (effective or not, refused or not) leaves the remembered admissions alone
      let j := match j.pendingW with
        | some before => if v == before then j else j.fail "window-change-forgot-admissions"
        | none => j
      { j with lastQ := some v, pendingM := none, pendingW := none }
  else if k = "E" then
    -- every waiter whose context was cancelled has returned (at once, or it had been admitted)
    if cancels.all (fun p => j.done.contains p.1 || (lookupT calls p.1).isNone) then j else j.fail "cancel-ignored"
  else j.fail "unparsable"

def judge (N W : Nat) (script : List (SEv × Nat)) (impl : List String) : String :=
  let calls := script.filterMap (fun p => match p.1 with | .call w => some (w, p.2) | _ => none)
  let cancels := script.filterMap (fun p => match p.1 with | .cancel w => some (w, p.2) | _ => none)
  let allows := script.filterMap (fun p => match p.1 with | .allow w => some (w, p.2) | _ => none)
  let ms := script.filterMap (fun p => match p.1 with | .setMax n => some n | _ => none)
  let wsA := script.filterMap (fun p => match p.1 with | .setWin d => some d | _ => none)
  let j0 : Judge := { N := N, W := W, ms := ms, wsArgs := wsA }
  let j := impl.foldl (judgeTok calls cancels allows) j0
  match j.bad with
  | some why => "bad:" ++ why
  | none => "ok"

def bucket (n : Nat) : String :=
  if n = 0 then "0" else if n ≤ 2 then "1-2" else if n ≤ 8 then "3-8" else if n ≤ 20 then "9-20" else "21+"

def tagOf (N W : Nat) (script : List (SEv × Nat)) (m : Sim) : String :=
  let has (p : SEv → Bool) := script.any (fun e => p e.1)
  "N" ++ toString N ++ (if W = 0 then "Z" else "") ++ ":" ++
  (if has (fun e => match e with | .setMax _ => true | _ => false) then "R" else "") ++
  (if has (fun e => match e with | .setWin _ => true | _ => false) then "V" else "") ++
  (if has (fun e => match e with | .cancel _ => true | _ => false) then "C" else "") ++
  (if has (fun e => match e with | .allow _ => true | _ => false) then "L" else "") ++
  ":a" ++ bucket m.st.got.length ++ ":w" ++ bucket m.q.length

def handle (args impl : List String) : String :=
  match args with
  | "trace" :: n :: w :: evs =>
    match n.toNat?, w.toNat?, parseScript evs with
    | some N, some W, some script =>
      if N = 0 ∧ W ≠ 0 then bad else
      let m := simulate N W script
      reply (modelOut m) (if impl = [] then "-" else judge N W script impl) (tagOf N W script m)
    | _, _, _ => bad
  | _ => bad

end CM.Drv.C17
