import CM.Lib.Wire
import CM.Model.Bundle
/-! Driver handler for C07: operation-sequence correspondence, and the model's prediction
"usable after recovery?" for every crash point / failing operation; the executable spec is
the property itself (usable; old bundle survives). -/
namespace CM.Drv.C07
open CM.Wire CM.Bundle

def oldCrt : Crt := { pub := 1, ser := 1, nb := 0 }

def initSlots (init : String) : Slots :=
  if init = "empty" then Slots.empty
  else if init = "key" then { Slots.empty with key := some 1 }
  else if init = "keycrt" then { Slots.empty with key := some 1, crt := some oldCrt }
  else if init = "keymeta" then { Slots.empty with key := some 1, mta := some 1 }
  else { key := some 1, crt := some oldCrt, mta := some 1, compromised := none }

def showPart : Part → String
  | .key => "key" | .crt => "crt" | .mta => "meta"

def showCall : Call → String
  | .exists p => "exists:" ++ showPart p
  | .load p => "load:" ++ showPart p
  | .store p => "store:" ++ showPart p
  | .delete p => "delete:" ++ showPart p
  | .lock => "lock"
  | .unlock => "unlock"

def showU (b : Bool) : String := if b then "usable" else "unusable"

def handle (args impl : List String) : String :=
  match args with
  | ["seq", op, reuse, init] =>
    let e : Env := { reuse := reuse = "1", fresh := 2, ser := 2, now := 10 }
    let s := initSlots init
    let calls := if op = "obtain" then obtainCalls e s else renewCalls s
    reply (String.intercalate "," (calls.map showCall)) (if impl.isEmpty then "-" else "ok") (op ++ reuse ++ init)
  | ["crash", op, reuse, init, j, od] =>
    match j.toNat? with
    | some j =>
      let e : Env := { reuse := reuse = "1", fresh := 2, ser := 2, now := 10 }
      let e' : Env := { reuse := reuse = "1", fresh := 3, ser := 3, now := 20 }
      let s := initSlots init
      let k := if op = "obtain" then obtainKey e s else renewKey e 1
      let after := if op = "obtain" && hasAll s then s
                   else applyFirst j (saveWrites k { pub := k, ser := 2, nb := 10 }) s
      let u := usable (recover e' after)
      let spec := match impl with
        | [r] => if r = "usable" then "ok" else s!"bad:unrecoverable-after-crash op={op} reuse={reuse} stores={j}"
        | _ => "-"
      reply (showU u) spec s!"{op}{reuse}{init}:j{j}:od{od}"
    | none => bad
  | ["fail", op, reuse, init, _k, kindK, _errored, od] =>
    let e' : Env := { reuse := reuse = "1", fresh := 3, ser := 3, now := 20 }
    let s := initSlots init
    -- whatever fails, the bundle is what it was (C07_failAt_restores); then recovery
    let u := usable (recover e' s)
    let spec := match impl with
      | [r, surv] =>
        if surv ≠ "1" then s!"bad:old-bundle-lost-after-failed-{op} at={kindK}"
        else if r ≠ "usable" then s!"bad:unrecoverable-after-fault op={op} at={kindK}"
        else "ok"
      | _ => "-"
    reply (showU u ++ " 1") spec s!"{op}{reuse}{init}:{kindK}:od{od}"
  | _ => bad

end CM.Drv.C07
