import CM.Lib.Wire
import CM.Model.Solvers
/-!
Driver handler for C16: trace validation. One history per line,

  trace <p0> [ttl=<cfg>/<min>/<typed>] <ev>* => <obs after ev 1> ; <obs after ev 2> ; …

  ev   P:<id>:<h|a|d>:<addr>:<key>:<rname>:<rval>:<store>:<cert>:<o|u|e>:<prov>
       C:<id>:<h|a|d>:<addr>:<key>:<rname>:<rval>:<cancelled>:<del>:<prov>
  obs  A=<addr>:<count|x>:<listener>,…  T=<token keys>  M=<memory keys>  R=<remembered name.value>  D=<provider name.value>

The model (`CM.Solvers.step`) must produce exactly the observed sequence; the executable
specification judges the *implementation's* observations against the set of pending
challenges, which it computes from the events alone.
-/
namespace CM.Drv.C16
open CM.Wire CM.Solvers

def allSome {α : Type} (l : List (Option α)) : Option (List α) :=
  l.foldr (fun x acc => match x, acc with
    | some a, some r => some (a :: r)
    | _, _ => none) (some [])

def decTyp : String → Option Typ
  | "h" => some .http | "a" => some .alpn | "d" => some .dns | _ => none

def decBind : String → Option Bind
  | "o" => some .ok | "u" => some .inUse | "e" => some .err | _ => none

def decEv (tok : String) : Option Ev :=
  match tok.splitOn ":" with
  | ["P", id, t, a, k, rn, rv, st, ce, b, pr] =>
    match id.toNat?, decTyp t, a.toNat?, k.toNat?, rn.toNat?, rv.toNat?, decBind b with
    | some id, some t, some a, some k, some rn, some rv, some b =>
      some (.present { id := id, typ := t, addr := a, key := k, rname := rn, rval := rv }
              { store := st = "1", cert := ce = "1", bind := b, prov := pr = "1" })
    | _, _, _, _, _, _, _ => none
  | ["C", id, t, a, k, rn, rv, ca, de, pr] =>
    match id.toNat?, decTyp t, a.toNat?, k.toNat?, rn.toNat?, rv.toNat? with
    | some id, some t, some a, some k, some rn, some rv =>
      some (.cleanUp { id := id, typ := t, addr := a, key := k, rname := rn, rval := rv }
              { cancelled := ca = "1", del := de = "1", prov := pr = "1" })
    | _, _, _, _, _, _ => none
  | _ => none

def decPair (tok : String) : Option (Nat × Nat) :=
  match tok.splitOn "." with
  | [a, b] => match a.toNat?, b.toNat? with
    | some a, some b => some (a, b)
    | _, _ => none
  | _ => none

def decPairs (tok : String) : Option (List (Nat × Nat)) :=
  if tok = "~" then some [] else allSome ((tok.splitOn ",").map decPair)

def decNats (tok : String) : Option (List Nat) :=
  if tok = "~" then some [] else allSome ((tok.splitOn ",").map String.toNat?)

def sortNat (l : List Nat) : List Nat := (l.toArray.qsort (· < ·)).toList
def sortPairs (l : List (Nat × Nat)) : List (Nat × Nat) :=
  (l.toArray.qsort (fun a b => a.1 < b.1 || (a.1 == b.1 && a.2 < b.2))).toList

def joinOr (l : List String) : String := if l = [] then "~" else String.intercalate "," l
def showPairs (l : List (Nat × Nat)) : String :=
  joinOr ((sortPairs l).map (fun p => toString p.1 ++ "." ++ toString p.2))

def evCh : Ev → Ch
  | .present c _ => c
  | .cleanUp c _ => c

/-- the model's observables, over the addresses and keys the history mentions -/
def showState (addrs keys : List Nat) (s : State) : String :=
  "A=" ++ joinOr (addrs.map (fun a => toString a ++ ":" ++
      (if s.ent a then toString (s.cnt a) else "x") ++ ":" ++ (if s.lis a then "1" else "0"))) ++
  " T=" ++ joinOr ((keys.filter s.tok).map toString) ++
  " M=" ++ joinOr ((keys.filter s.mem).map toString) ++
  " R=" ++ showPairs s.recMem ++ " D=" ++ showPairs s.provider

structure Obs where
  addrs : List (Nat × Option Int × Bool)
  toks : List Nat
  mems : List Nat
  recs : List (Nat × Nat)
  prov : List (Nat × Nat)

def decAddr (tok : String) : Option (Nat × Option Int × Bool) :=
  match tok.splitOn ":" with
  | [a, c, l] => match a.toNat? with
    | some a => if c = "x" then some (a, none, l = "1") else (c.toInt?).map (fun c => (a, some c, l = "1"))
    | none => none
  | _ => none

def field (pre : String) (tok : String) : Option String :=
  if tok.startsWith pre then some ((tok.drop pre.length).toString) else none

def decObs (toks : List String) : Option Obs :=
  match toks with
  | [a, t, m, r, d] => do
    let a ← field "A=" a
    let t ← field "T=" t
    let m ← field "M=" m
    let r ← field "R=" r
    let d ← field "D=" d
    let addrs ← if a = "~" then some [] else allSome ((a.splitOn ",").map decAddr)
    pure { addrs := addrs, toks := ← decNats t, mems := ← decNats m, recs := ← decPairs r, prov := ← decPairs d }
  | _ => none

/-- split the implementation's tokens at ";" -/
def splitSteps (toks : List String) : List (List String) :=
  let r := toks.foldl (fun (acc : List (List String) × List String) t =>
    if t = ";" then (acc.2.reverse :: acc.1, []) else (acc.1, t :: acc.2)) ([], [])
  (r.2.reverse :: r.1).reverse

/-- ghost of the specification: pending challenges, and whether a delete fault occurred -/
structure Ghost where
  active : List Ch := []
  delFault : Bool := false
  provFault : Bool := false
  prevLis : List (Nat × Bool) := []

def opensB (c : Ch) (r : PRes) : Bool :=
  match c.typ with
  | .http => r.bind == .ok
  | .alpn => r.cert && r.bind == .ok
  | .dns => false

/-- executable specification of one step: judge the observation `o` made after event `e` -/
def specStep (p0 : List (Nat × Nat)) (g : Ghost) (e : Ev) (o : Obs) : Ghost × String :=
  let active := match e with
    | .present c _ => c :: g.active
    | .cleanUp c _ => g.active.erase c
  let g' : Ghost := { active := active
                      delFault := g.delFault || (match e with | .cleanUp _ r => !r.del | _ => false)
                      provFault := g.provFault || (match e with | .cleanUp _ r => !r.prov | _ => false)
                      prevLis := o.addrs.map (fun (a, _, l) => (a, l)) }
  let users (a : Nat) : Nat := active.countP (uses a)
  let verdict : String :=
    if o.addrs.any (fun (a, c, _) => match c with
        | some n => n != (users a : Int)
        | none => users a != 0) then "bad:count-differs-from-pending"
    else if o.addrs.any (fun (a, c, _) => c.isSome && users a == 0) then "bad:listener-entry-left"
    else if o.addrs.any (fun (a, _, l) => l && users a == 0) then "bad:listener-open-without-challenge"
    else if o.addrs.any (fun (a, _, l) => !l && users a != 0 && g.prevLis.lookup a == some true)
      then "bad:listener-closed-while-challenge-remains"
    else if (match e with
        | .present c r => opensB c r && !(o.addrs.any (fun (a, _, l) => a == c.addr && l))
        | _ => false) then "bad:listener-not-opened"
    else if o.mems.any (fun k => !(active.any (fun c => c.key == k))) then "bad:memory-entry-left"
    else if !g'.delFault && o.toks.any (fun k => !(active.any (fun c => c.typ.listens && c.key == k)))
      then "bad:token-file-left"
    else if o.recs.any (fun p => decide (o.recs.count p > active.countP (hasRec p))) then "bad:record-memory-left"
    else if !g'.provFault && sortPairs o.prov != sortPairs (p0 ++ o.recs) then
      (if active.isEmpty then "bad:provider-records-differ-after-last-cleanup" else "bad:provider-records-differ")
    else "ok"
  (g', verdict)

def handle (args impl : List String) : String :=
  match args with
  | ["e2e", typ, scn, want, outcome] =>
    -- end-to-end order against the mock ACME server: the model's prediction is the theorems'
    -- conclusion "nothing left" (C16_memory_gone, C16_tokens_gone, C16_records_gone,
    -- C16_last_closes); the spec judges leftovers and, against a conforming server, success
    let spec := match impl with
      | [ns, na, nt, nr, nm, lis] =>
        if want = "ok" && outcome ≠ "issued" then "bad:issuance-failed-against-conforming-server"
        else if ns ≠ "0" then "bad:solvers-entry-left"
        else if na ≠ "0" then "bad:challenge-memory-left"
        else if nt ≠ "0" then "bad:token-file-left"
        else if nr ≠ "0" then "bad:dns-record-left"
        else if nm ≠ "0" then "bad:record-memory-left"
        else if lis ≠ "0" then "bad:listener-still-accepting"
        else "ok"
      | _ => "-"
    reply "0 0 0 0 0 0" spec (typ ++ ":" ++ scn ++ ":" ++ outcome)
  | "trace" :: p0 :: rest =>
    -- optional configuration token `ttl=<configured s>/<provider minimum s>/<typed>`: the record TTL
    -- set on the DNSManager and the provider's TTL policy. It is NOT an input of the model or of the
    -- specification (every created record is deleted again whatever the provider made of its TTL);
    -- it is part of the replay and of the branch tag.
    let (cfg, evs) := match rest with
      | c :: r => if c.startsWith "ttl=" then (c, r) else ("", rest)
      | [] => ("", rest)
    let ttlAdj := match ((cfg.drop 4).toString.splitOn "/").map String.toNat? with
      | [some c, some m, _] => decide (c < m)
      | _ => false
    match decPairs p0, allSome (evs.map decEv) with
    | some p0, some evs =>
      let addrs := sortNat ((evs.filterMap (fun e => if (evCh e).typ.listens then some (evCh e).addr else none)).eraseDups)
      let keys := sortNat ((evs.map (fun e => (evCh e).key)).eraseDups)
      -- the model's run
      let (outs, _, okRun) := evs.foldl (fun (acc : List String × State × Bool) e =>
        let (outs, s, ok) := acc
        if !ok then acc else
        match step s e with
        | some s' => (showState addrs keys s' :: outs, s', true)
        | none => (outs, s, false)) ([], State.init p0, true)
      if !okRun then reply "undisciplined-history" "bad-op" "bad-op" else
      let model := String.intercalate " ; " outs.reverse
      -- the specification on the implementation's observations
      let steps := if impl = [] then [] else splitSteps impl
      let spec :=
        if steps.length != evs.length then "bad-op"
        else
          let r := (evs.zip steps).foldl (fun (acc : Ghost × String) (e, st) =>
            if acc.2 != "ok" then acc else
            match decObs st with
            | some o => specStep p0 acc.1 e o
            | none => (acc.1, "bad-op")) (({} : Ghost), "ok")
          r.2
      let nP := evs.countP (fun e => match e with | .present _ _ => true | _ => false)
      let faults := evs.any (fun e => match e with
        | .present _ r => !r.store || !r.cert || r.bind != .ok || !r.prov
        | .cleanUp _ r => r.cancelled || !r.del || !r.prov)
      reply model spec ("n" ++ toString evs.length ++ "p" ++ toString nP ++ (if faults then "f" else "") ++
        (if ttlAdj && evs.any (fun e => (evCh e).typ == .dns) then "t" else ""))
    | _, _ => bad
  | _ => bad

end CM.Drv.C16
