import CM.Lib.Wire
import CM.Model.FileTree
/-!
Driver handler for C10.

`kv <op>* => <out>*` — one whole history of `FileStorage` operations per line. Components
and values are small naturals (the harness keeps the tables of real names / byte strings;
value `n` is a byte string of length `n`). Operations:

    S:<key>:<n>  Store      L:<key>  Load      D:<key>  Delete     E:<key>  Exists
    T:<key>      Stat       Ln:<key> List      Lr:<key> List recursive
    key = components joined by '/', the root prefix is `-`

Outputs (one token per operation): `ok` `err` `notexist` `v<n>` `corrupt` `t` `f` `f<n>`
(file of size n) `d` (directory) `k[<key>,<key>…]` (sorted listing).

The *model* is `CM.FileTree` (the POSIX tree with lingering directories); the *spec* is the
`Storage` contract `CM.KV`, evaluated on a contract state that is advanced by what the
implementation reported, and judging only where the contract is definite (see `judge`).
-/
namespace CM.Drv.C10
open CM.Wire CM.KV CM.FileTree

abbrev K := Key Nat

inductive Op where
  | store (k : K) (v : Nat) | load (k : K) | delete (k : K) | «exists» (k : K)
  | stat (k : K) | list (k : K) (r : Bool)

inductive Out where
  | ok | err | notexist | val (n : Nat) | corrupt | t | f | file (n : Nat) | dir | keys (l : List K)
  deriving DecidableEq

def decKey (s : String) : Option K :=
  if s = "-" then some [] else
  (s.splitOn "/").foldr (fun p acc => match p.toNat?, acc with
    | some n, some l => some (n :: l)
    | _, _ => none) (some [])

def encKey (k : K) : String :=
  if k = [] then "-" else String.intercalate "/" (k.map toString)

def decOp (s : String) : Option Op :=
  match s.splitOn ":" with
  | ["S", k, v] => match decKey k, v.toNat? with
    | some k, some v => some (.store k v)
    | _, _ => none
  | ["L", k] => (decKey k).map .load
  | ["D", k] => (decKey k).map .delete
  | ["E", k] => (decKey k).map .exists
  | ["T", k] => (decKey k).map .stat
  | ["Ln", k] => (decKey k).map (.list · false)
  | ["Lr", k] => (decKey k).map (.list · true)
  | _ => none

def keyLe : K → K → Bool
  | [], _ => true
  | _ :: _, [] => false
  | a :: as, b :: bs => if a < b then true else if b < a then false else keyLe as bs

def canon (l : List K) : List K := (l.mergeSort keyLe).eraseDups

def encOut : Out → String
  | .ok => "ok" | .err => "err" | .notexist => "notexist" | .val n => "v" ++ toString n
  | .corrupt => "corrupt" | .t => "t" | .f => "f" | .file n => "f" ++ toString n | .dir => "d"
  | .keys l => "k[" ++ String.intercalate "," (l.map encKey) ++ "]"

def decOut (s : String) : Option Out :=
  if s = "ok" then some .ok else if s = "err" then some .err else if s = "notexist" then some .notexist
  else if s = "corrupt" then some .corrupt else if s = "t" then some .t else if s = "f" then some .f
  else if s = "d" then some .dir
  else if s.startsWith "k[" && s.endsWith "]" then
    let body := ((s.drop 2).dropRight 1).toString
    if body = "" then some (.keys []) else
    (body.splitOn ",").foldr (fun p acc => match decKey p, acc with
      | some k, some l => some (.keys (k :: (match l with | .keys l => l | _ => [])))
      | _, _ => none) (some (.keys []))
  else if s.startsWith "v" then ((s.drop 1).toString.toNat?).map .val
  else if s.startsWith "f" then ((s.drop 1).toString.toNat?).map .file
  else none

abbrev T := FS Nat Nat

/-- the model: one operation on the POSIX tree -/
def modelStep (t : T) : Op → Out × T
  | .store k v => match fsStore t k v with
    | (.ok _, t') => (.ok, t')
    | (.notexist, t') => (.notexist, t')
    | (.err, t') => (.err, t')
  | .load k => (match fsLoad t k with | .ok v => .val v | .notexist => .notexist | .err => .err, t)
  | .delete k => match fsDelete t k with
    | (.ok _, t') => (.ok, t')
    | (.notexist, t') => (.notexist, t')
    | (.err, t') => (.err, t')
  | .exists k => (if fsExists t k then .t else .f, t)
  | .stat k => (match fsStat id t k with
    | .ok (.file n) => .file n | .ok .dir => .dir | .notexist => .notexist | .err => .err, t)
  | .list k r => (match fsList t k r with
    | .ok l => .keys (canon l) | .notexist => .notexist | .err => .err, t)

/-- is `x` a directory on disk with no stored key below it? (ghost state of the spec) -/
def lingering (t : T) (x : K) : Bool := classify t x == .linger

/-- The executable specification: what the `Storage` contract (CM.KV on `t.files`) says
about the implementation's answer `o` to `op`. `none` = acceptable. The contract is
definite for files, directories (prefixes of stored keys) and missing keys; for paths
*through* a file (D11) and for empty directories left on disk it is silent. -/
def judge (t : T) (op : Op) (o : Out) : Option String :=
  match op with
  | .store k _ =>
    let c := classify t k
    if o = .ok then none
    else if c = .thru ∨ c = .dir ∨ c = .linger then none else some "store-failed"
  | .load k =>
    match classify t k, KV.load t.files k with
    | .file, some v => if o = .val v then none else some "load-wrong-value"
    | .missing, _ => if o = .notexist then none else some "load-missing-not-notexist"
    | _, _ => match o with | .val _ => some "load-phantom-value" | .corrupt => some "load-phantom-value" | _ => none
  | .delete k =>
    if o = .ok ∨ o = .notexist then none
    else if classify t k = .thru then none else some "delete-failed"
  | .exists k =>
    match classify t k with
    | .file | .dir => if o = .t then none else some "exists-false-for-node"
    | .missing => if o = .f then none else some "exists-true-for-missing"
    | _ => none
  | .stat k =>
    match classify t k, KV.stat id t.files k with
    | .file, some (.file n) => if o = .file n then none else some "stat-wrong-file-info"
    | .dir, _ => if o = .dir then none else some "stat-wrong-dir-info"
    | .missing, _ => if o = .notexist then none else some "stat-missing-not-notexist"
    | .linger, _ => if o = .dir ∨ o = .notexist then none else some "stat-wrong-info"
    | _, _ => none
  | .list k r =>
    let c := classify t k
    if k = [] ∨ c = .dir then
      match o, KV.list t.files k r with
      | .keys l, some want =>
        if want.any (fun x => !l.contains x) then some (if r then "list-recursive-missing-entry" else "list-missing-entry")
        else if l.any (fun x => !want.contains x && !lingering t x) then
          some (if r then "list-recursive-extra-entry" else "list-extra-entry")
        else if !(k.isEmpty) && l.any (fun x => !(k.isPrefixOf x)) then some "list-outside-prefix"
        else none
      | _, _ => some "list-failed"
    else if c = .missing then (if o = .notexist then none else some "list-missing-not-notexist")
    else match o with
      | .keys l => if l.any (fun x => !lingering t x) then some "list-phantom-entry" else none
      | _ => none

/-- the contract state after `op`, given what the implementation reported -/
def specNext (t : T) (op : Op) (o : Out) : T :=
  match op with
  | .store k v =>
    if thruFile t k then t
    else
      let t' : T := { t with dirs := addDirs t.dirs (parents k) }
      if o = .ok then { t' with files := KV.store t.files k v, dirs := t'.dirs.filter (· ≠ k) } else t'
  | .delete k =>
    if o = .ok ∨ o = .notexist then
      { files := KV.delete t.files k, dirs := t.dirs.filter (fun d => !k.isPrefixOf d) }
    else t
  | _ => t

def clsTag (t : T) (op : Op) : String :=
  let k := match op with
    | .store k _ => k | .load k => k | .delete k => k | .exists k => k | .stat k => k | .list k _ => k
  match classify t k with
  | .file => "" | .dir => "d" | .thru => "T" | .linger => "L" | .missing => "m"

structure Acc where
  m : T := FS.empty
  s : T := FS.empty
  outs : List String := []
  verdict : Option String := none
  tags : List String := []

def runKV (ops : List Op) (impl : List (Option Out)) : Acc :=
  let rec go (ops : List Op) (impl : List (Option Out)) (a : Acc) : Acc :=
    match ops with
    | [] => a
    | op :: rest =>
      let (mo, m') := modelStep a.m op
      let (io, irest) := match impl with
        | o :: r => (o, r)
        | [] => (none, [])
      let tg := clsTag a.s op
      let a' : Acc := match io with
        | some o =>
          let v := if a.verdict.isSome then a.verdict else
            (judge a.s op o).map (fun r => r)
          { m := m', s := specNext a.s op o, outs := encOut mo :: a.outs, verdict := v
            tags := if a.tags.contains tg then a.tags else tg :: a.tags }
        | none => { a with m := m', outs := encOut mo :: a.outs }
      go rest irest a'
  go ops impl {}

def handle (args impl : List String) : String :=
  match args with
  | "kv" :: opToks =>
    let ops := opToks.map decOp
    if ops.any Option.isNone then bad else
    let ops := ops.filterMap id
    let io := impl.map decOut
    if impl ≠ [] ∧ (io.any Option.isNone ∨ io.length ≠ ops.length) then bad else
    let a := runKV ops io
    let spec := if impl = [] then "-" else match a.verdict with
      | none => "ok"
      | some r => "bad:" ++ r
    reply (String.intercalate " " a.outs.reverse) spec
      (String.join (a.tags.mergeSort (fun x y => x ≤ y)))
  | _ => bad

end CM.Drv.C10
