import CM.Lib.Wire
import CM.Proofs.Safe
/-! Driver handler for C11: runs the model's `safe` / builders and the executable spec. -/
namespace CM.Drv.C11
open CM.Wire CM.Safe

/-- parse "a:b,c:d" (hex code points) -/
def decMap (tok : String) : Option (List (Char × Char)) :=
  if tok = "-" then some [] else
  (tok.splitOn ",").foldr (fun p acc =>
    match p.splitOn ":", acc with
    | [a, b], some l => match hexNat a, hexNat b with
      | some x, some y => some ((Char.ofNat x, Char.ofNat y) :: l)
      | _, _ => none
    | _, _ => none) (some [])

def decSet (tok : String) : Option (List Char) :=
  if tok = "-" then some [] else
  (tok.splitOn ",").foldr (fun p acc => match hexNat p, acc with
    | some x, some l => some (Char.ofNat x :: l)
    | _, _ => none) (some [])

/-- ASCII lower-casing / white space, extended by the tables Go reports for the
non-ASCII characters occurring in this line -/
def mkEnv (lm : List (Char × Char)) (sp : List Char) : Env where
  lower c := match lm.lookup c with
    | some d => d
    | none => if isUpperA c then Char.ofNat (c.toNat + 32) else c
  isSpace c := c == ' ' || c == '\t' || c == '\n' || c == '\r' || c == Char.ofNat 11 ||
    c == Char.ofNat 12 || sp.contains c

/-- executable specification of the sanitiser's output (what C11 demands of *any* output) -/
def specSafe (out out2 : Str) : String :=
  if !(out.all keep) then "bad:alphabet"
  else if hasDD out then "bad:dotdot"
  else if out.contains '/' || out.contains '\\' then "bad:separator"
  else if out2 ≠ out then "bad:not-idempotent"
  else "ok"

def tagSafe (inp out : Str) : String :=
  (if inp.any (fun c => c == '.') then "d" else "") ++
  (if inp.any (fun c => !keep c) then "s" else "") ++
  (if inp.any isUpperA then "u" else "") ++
  (if inp.any (fun c => (pairs.lookup c).isSome) then "r" else "") ++
  (if inp.any (fun c => c.toNat > 127) then "n" else "") ++
  (if out = [] then "e" else "")

/-- spec for a built key (slash-joined string): stays under `pre`, no `..` component -/
def specKey (pre : List Str) (key : Str) : String :=
  let comps := splitSlash key
  if comps.any (fun c => c = dotdot || c = [] ) then "bad:component"
  else if !(pre.isPrefixOf comps) then "bad:namespace"
  else "ok"

def handle (args impl : List String) : String :=
  match args with
  | ["safe", s, lm, sp] =>
    match decStr s, decMap lm, decSet sp with
    | some s, some lm, some sp =>
      let E := mkEnv lm sp
      let m := safe E s
      let spec := match impl with
        | [o, o2] => match decStr o, decStr o2 with
          | some o, some o2 => specSafe o o2
          | _, _ => "bad-op"
        | _ => "-"
      reply (encStr m ++ " " ++ encStr (safe E m)) spec (tagSafe s m)
    | _, _, _ => bad
  | [b, i, d, lm, sp] =>
    match decStr i, decStr d, decMap lm, decSet sp with
    | some i, some d, some lm, some sp =>
      let E := mkEnv lm sp
      let r : Option (List Str × List Str) :=
        if b = "certsPrefix" then some (certsPrefix E i, [prefixCerts])
        else if b = "sitePrefix" then some (certsSitePrefix E i d, certsPrefix E i)
        else if b = "siteCert" then some (siteCert E i d, certsSitePrefix E i d)
        else if b = "siteKey" then some (siteKey E i d, certsSitePrefix E i d)
        else if b = "siteMeta" then some (siteMeta E i d, certsSitePrefix E i d)
        else if b = "lockFile" then some (lockFile E i, [str "locks"])
        else none
      match r with
      | some (m, pre) =>
        let spec := match impl with
          | [o] => match decStr o with
            | some o => specKey pre o
            | none => "bad-op"
          | _ => "-"
        reply (encStr (showPath m).toList) spec (b ++ ":" ++ toString m.length)
      | none => bad
    | _, _, _, _ => bad
  | _ => bad

end CM.Drv.C11
