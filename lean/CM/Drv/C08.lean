import CM.Lib.Wire
/-! Driver handler for C08 (stub: not built yet). -/
namespace CM.Drv.C08
open CM.Wire

def handle (_args _impl : List String) : String := bad

end CM.Drv.C08
