import CM.Lib.Wire
import CM.Model.FileLockSim
import CM.Generated.Fn
/-!
Driver handler for C08.

`sim <slack> <racy> <start> <f0> <actor>* <ext>* => <outcome>*` — one script of actors
on ONE lock file (times: integer nanoseconds since the harness's epoch).

    f0       none | empty | garbage | stamp:<created>:<updated>   the file found at <start>
    actor    a:<t0>:<hold>:<cancelAt>:<h|c>[:<late>]   Lock at t0; Unlock `hold` after Lock returned;
             the context is cancelled at cancelAt (`h`: that is only the experiment's horizon);
             `late` > 0: a protocol-conforming holder (played by the harness) whose every
             heartbeat runs `late` < H after it is due
    ext      x:<at>:<content>                   a foreign dead process's lock file appears at <at>
    outcome  acq@<T> | cancel@<T> | pending    per actor, in order

The model output is what the scheduler `simulate` (running the LTS's own `step`) predicts;
`*` for scripts flagged racy (several actors act at one instant: the outcome depends on the
interleaving) — those are judged by the specification only. The specification `judge`
checks mutual exclusion (all holders alive), recovery within the proved bound, prompt
return on cancellation, and that expected acquisitions happen.
-/
namespace CM.Drv.C08
open CM.Wire CM.FileLock

def decContent : List String → Option Content
  | ["empty"] => some .empty
  | ["garbage"] => some .garbage
  | ["stamp", c, u] => match c.toNat?, u.toNat? with
    | some c, some u => some (.stamp c u)
    | _, _ => none
  | _ => none

def decF0 (s : String) : Option (Option Content) :=
  if s = "none" then some none else (decContent (s.splitOn ":")).map some

def decActor (s : String) : Option Actor :=
  match s.splitOn ":" with
  | ["a", t0, hold, ca, fl] => match t0.toNat?, hold.toNat?, ca.toNat? with
    | some t0, some hold, some ca => some { t0 := t0, hold := hold, cancelAt := ca, horizon := fl = "h" }
    | _, _, _ => none
  | ["a", t0, hold, ca, fl, late] => match t0.toNat?, hold.toNat?, ca.toNat?, late.toNat? with
    | some t0, some hold, some ca, some late =>
      some { t0 := t0, hold := hold, cancelAt := ca, horizon := fl = "h", late := late }
    | _, _, _, _ => none
  | _ => none

def decExt (s : String) : Option Ext :=
  match s.splitOn ":" with
  | "x" :: at_ :: rest => match at_.toNat?, decContent rest with
    | some t, some c => some { at_ := t, cont := c }
    | _, _ => none
  | _ => none

def encOutcome : Outcome → String
  | .pending => "pending"
  | .acq t => "acq@" ++ toString t
  | .cancel t => "cancel@" ++ toString t
  | .err t => "err@" ++ toString t

def decOutcome (s : String) : Option Outcome :=
  if s = "pending" then some .pending
  else match s.splitOn "@" with
    | ["acq", t] => t.toNat?.map .acq
    | ["cancel", t] => t.toNat?.map .cancel
    | ["err", t] => t.toNat?.map .err
    | _ => none

def allSome {α : Type} (l : List (Option α)) : Option (List α) :=
  l.foldr (fun x acc => match x, acc with
    | some a, some r => some (a :: r)
    | _, _ => none) (some [])

def handle (args impl : List String) : String :=
  match args with
  | "sim" :: slack :: racy :: start :: f0 :: rest =>
    let aToks := rest.filter (·.startsWith "a:")
    let xToks := rest.filter (·.startsWith "x:")
    match slack.toNat?, start.toNat?, decF0 f0, allSome (aToks.map decActor), allSome (xToks.map decExt) with
    | some slack, some start, some f0, some as, some exts =>
      if aToks.length + xToks.length ≠ rest.length then bad else
      let c := codeParams
      let (outs, fin) := simulate c start f0 as exts 2000000
      let model := if racy = "1" ∨ !fin then "*" else String.intercalate " " (outs.map encOutcome)
      let spec := if impl = [] then "-" else
        match allSome (impl.map decOutcome) with
        | some io => if io.length = as.length then judge c slack f0 as exts io else "bad-op"
        | none => "bad-op"
      let twoH := c.factor * c.H
      let tag := (match f0 with
          | none => "n" | some .empty => "e" | some .garbage => "g"
          | some (.stamp cr u) =>
            -- the TRANSLATED `fileLockIsStale` (CM/Generated/Fn) beside the model's `stale`
            if c == codeParams && CM.Gen.Fn.translated.contains "fileLockIsStale" &&
                CM.Gen.Fn.fileLockIsStale (Int.ofNat start) ⟨Int.ofNat cr, Int.ofNat u⟩ != stale c start cr u
            then "translated-definition-differs-from-model"
            else if stale c start cr u then "s" else "f") ++
        toString as.length ++
        (if as.any (fun a => !a.horizon) then "c" else "") ++
        (if as.any (fun a => a.hold > twoH) then "L" else "") ++
        (if as.any (fun a => a.hold > c.H ∧ a.hold ≤ twoH) then "M" else "") ++
        (if as.any (fun a => a.late > 0) then "J" else "") ++
        (if exts.isEmpty then "" else "x") ++ (if racy = "1" then "r" else "")
      reply model spec tag
    | _, _, _, _, _ => bad
  | _ => bad

end CM.Drv.C08
