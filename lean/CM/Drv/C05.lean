import CM.Lib.Wire
import CM.Model.Maintain
/-!
Driver handler for C05. One request = one history:

  `trace <lifetime s> <number of names> <event>* => <observation>*`

The model (`CM.Maintain.step` with C04's decision as the `due` predicate) replays the events
and prints, per event, `result|issuer log delta|storage writes|issue locks taken|state`, exactly as the
harness prints what it observed on the real code. The specification verdict judges the
*implementation's* observations (sanity conditions that need no clock; the conditions
that need certificate times are judged by the Go monitors).
-/
namespace CM.Drv.C05
open CM.Wire CM.Maintain

def parseMode (s : String) : Option Mode :=
  if s = "ok" then some .ok else if s = "hard" then some .hard else if s = "soft" then some .soft
  else if s = "hold" then some .hold else none

def parseEv (tok : String) : Option Ev :=
  match tok.splitOn ":" with
  | ["adv", d] => d.toInt?.map .adv
  | ["pass"] => some .pass
  | ["pass2"] => some .pass2
  | ["msync", k] => k.toNat?.map (fun k => .manage k false false)
  | ["masync", k] => k.toNat?.map (fun k => .manage k true false)
  | ["mfault", k] => k.toNat?.map (fun k => .manage k false true)
  | ["mode", k, m] => match k.toNat?, parseMode m with
    | some k, some m => some (.mode k m)
    | _, _ => none
  | ["rel", k, m] => match k.toNat?, parseMode m with
    | some k, some m => some (.rel k m)
    | _, _ => none
  | ["oren", k] => k.toNat?.map .oren
  | ["oobt", k] => k.toNat?.map .oobt
  | ["del", k] => k.toNat?.map .del
  | ["corrupt", k] => k.toNat?.map .corrupt
  | ["rm", k] => k.toNat?.map .rm
  | ["revoke", k] => k.toNat?.map .revoke
  | ["od", b] => b.toNat?.map (fun b => .od (b == 1))
  | ["unm", k, l] => match k.toNat?, l.toInt? with
    | some k, some l => some (.unm k l)
    | _, _ => none
  | _ => none

def showOut : Out → String
  | .dash => "-" | .ok => "ok" | .err => "err" | .busy => "busy" | .skip => "skip"
  | .none => "none" | .done => "done" | .noop => "noop" | .issued => "issued"

def showId (i : CertId) : String := toString i.name ++ "_" ++ toString i.ver

def showRes : IssueRes → String
  | .ok v => "v" ++ toString v | .fail => "f" | .begun => "b"

def joinOr (sep : String) (l : List String) : String := if l.isEmpty then "-" else sep.intercalate l

/-- stable insertion sort -/
def insertBy {α : Type} (lt : α → α → Bool) (x : α) : List α → List α
  | [] => [x]
  | y :: ys => if lt x y then x :: y :: ys else y :: insertBy lt x ys

def sortBy {α : Type} (lt : α → α → Bool) (l : List α) : List α :=
  l.foldl (fun acc x => insertBy lt x acc) []

def runs : List String → List (String × Nat)
  | [] => []
  | x :: xs =>
    match runs xs with
    | (y, n) :: r => if x = y then (y, n + 1) :: r else (x, 1) :: (y, n) :: r
    | [] => [(x, 1)]

def showLog (delta : List LogEntry) : String :=
  let sorted := sortBy (fun (a b : LogEntry) => a.inst < b.inst || (a.inst == b.inst && a.subj < b.subj)) delta
  let toks := sorted.map (fun e => toString e.inst ++ "." ++ toString e.subj ++ "." ++ showRes e.res)
  joinOr "," ((runs toks).map (fun p => if p.2 > 1 then p.1 ++ "*" ++ toString p.2 else p.1))

def showWrites (n : Nat) (delta : List LogEntry) : String :=
  joinOr "," ((List.range n).filterMap (fun k =>
    let c := (delta.filter (fun e => e.subj == k && (match e.res with | .ok _ => true | _ => false))).length
    if c = 0 then none else some (toString k ++ "x" ++ toString (3 * c))))

def showLocks (n : Nat) (delta : List Name) : String :=
  joinOr "," ((List.range n).filterMap (fun k =>
    let c := (delta.filter (· == k)).length
    if c = 0 then none else some (toString k ++ "x" ++ toString c)))

def showStored : Stored → String
  | .none => "-" | .corrupt => "x" | .ok c => showId c.id

def showState (n : Nat) (s : State) : String :=
  let cs := (List.range n).map (fun k =>
    let row := (s.cache.index k).map (fun i => if s.cache.has i then showId i else "?")
    let sv := match served s.now s.cache k with
      | some i => showId i
      | none => "-"
    joinOr "+" row ++ "~" ++ sv ++ "~" ++ showStored (s.store k))
  let jn := sortBy (fun (a b : Nat) => a < b) (s.jobs.filterMap (fun j => j.jname))
  let ks := (List.range n).filter (fun k => lockHeld s k)
  "T=" ++ toString s.now ++ ";C=" ++ ",".intercalate cs ++ ";J=" ++ joinOr "." (jn.map toString) ++ "/" ++
    toString s.jobs.length ++ "/0;K=" ++ joinOr "." (ks.map toString)

def replay (n : Nat) : State → List Ev → List String → List String
  | _, [], acc => acc.reverse
  | s, e :: es, acc =>
    let r := step dueC04 s e
    let delta := r.1.log.drop s.log.length
    let tok := showOut r.2 ++ "|" ++ showLog delta ++ "|" ++ showWrites n delta ++ "|" ++
      showLocks n (r.1.locks.drop s.locks.length) ++ "|" ++ showState n r.1
    replay n r.1 es (tok :: acc)

/-! executable sanity specification on the implementation's observations -/

def field (pre : String) (parts : List String) : Option String :=
  (parts.find? (fun p => p.startsWith pre)).map (fun p => (p.drop pre.length).toString)

def specStep (tok : String) : Option String :=
  match tok.splitOn "|" with
  | [_, log, _, _, st] =>
    let lt := if log = "-" then [] else log.splitOn ","
    -- (inst, name) pairs with a successful issuance, counted with multiplicity
    let oks := lt.filterMap (fun t => match t.splitOn "." with
      | [i, k, r] => if r.startsWith "v" then some (i ++ "." ++ k, r) else none
      | _ => none)
    let dupOk := oks.any (fun p => (oks.filter (fun q => q.1 = p.1)).length > 1 || (p.2.splitOn "*").length > 1)
    let parts := st.splitOn ";"
    let cs := match field "C=" parts with
      | some c => c.splitOn ","
      | none => []
    let badServed := cs.any (fun c => match c.splitOn "~" with
      | [row, sv, _] => sv ≠ "-" && !((row.splitOn "+").contains sv)
      | _ => true)
    -- an issuance for name k leaves exactly that version in storage
    let badStored := oks.any (fun p => match p.1.splitOn ".", cs with
      | [_, k], cs => match k.toNat? with
        | some k => match (cs.getD k "").splitOn "~" with
          | [_, _, sd] => sd ≠ k.repr ++ "_" ++ ((p.2.drop 1).toString.splitOn "*").headD ""
          | _ => true
        | none => true
      | _, _ => true)
    let jobsBad := match field "J=" parts, field "K=" parts with
      | some j, some k => match j.splitOn "/" with
        | [names, act, q] =>
          let ns := if names = "-" then [] else names.splitOn "."
          let ks := if k = "-" then [] else k.splitOn "."
          ns.any (fun n => !ks.contains n) || q ≠ "0" || (act.toNat?.getD 0) < ns.length ||
            ns.any (fun n => (ns.filter (· = n)).length > 1)
        | _ => true
      | _, _ => true
    if dupOk then some "issued-twice-in-one-step"
    else if badServed then some "served-not-in-index-row"
    else if badStored then some "issued-version-not-in-storage"
    else if jobsBad then some "job-without-lock-or-duplicate"
    else none
  | _ => some "malformed-observation"

def handle (args impl : List String) : String :=
  match args with
  | "trace" :: life :: n :: evs =>
    match life.toInt?, n.toNat?, evs.mapM parseEv with
    | some life, some n, some evs =>
      let out := replay n (init life) evs []
      let spec := match impl.findSome? specStep with
        | some r => "bad:" ++ r
        | none => "ok"
      let final := run dueC04 (init life) evs
      let cnt (p : LogEntry → Bool) := (final.log.filter p).length
      let tag := "n" ++ toString n ++ ":e" ++ toString evs.length ++
        ":i" ++ toString (cnt (fun e => e.inst == 0 && (match e.res with | .ok _ => true | _ => false))) ++
        ":o" ++ toString (cnt (fun e => e.inst == 1)) ++
        ":f" ++ toString (cnt (fun e => e.res == .fail)) ++
        ":h" ++ toString (cnt (fun e => e.res == .begun))
      reply (" ".intercalate out) spec tag
    | _, _, _ => bad
  | "overlap" :: life :: n :: variant :: evs =>
    -- real overlap of instance B's renewal with instance A's pass; the model runs the
    -- corresponding atomic history and predicts A's issuer calls and the adoption
    match life.toInt?, n.toNat?, evs.mapM parseEv with
    | some life, some n, some evs =>
      let final := run dueC04 (init life) evs
      let own := (final.log.filter (fun e => e.inst == 0)).length - n
      let adopted := (List.range n).all (fun k => match served final.now final.cache k, final.store k with
        | some i, .ok c => i == c.id
        | _, _ => false)
      let spec := match impl with
        | [o, a] =>
          if variant = "b-first" && o ≠ "0" then "bad:issuer-contacted-although-renewed-by-other-instance"
          else if variant ≠ "b-first" && o.toNat? ≠ some n then "bad:not-renewed-once"
          else if a ≠ "1" then "bad:renewed-certificate-not-served"
          else "ok"
        | [] => "-"
        | _ => "bad:malformed-observation"
      reply (toString own ++ " " ++ (if adopted then "1" else "0")) spec ("overlap:" ++ variant ++ ":n" ++ toString n)
    | _, _, _ => bad
  | _ => bad

end CM.Drv.C05
