/-
Skeleton IR: function bodies of the repository reduced to the actions the protocol models
talk about. Terms of this type are *generated* from /repo's source on every run by the
translator (go/extract/skel.go). This file also contains the verified *lock discipline*
checker (DESIGN 2.1-L4 a): a structural recursion over skeletons with a soundness theorem
against a big-step semantics with defer/return/panic.
-/
namespace CM.Skel

inductive Sk
  | act (name : String)            -- a call that may return or panic
  | ret                            -- return
  | pnc                            -- panic(...)
  | skip
  | seq (a b : Sk)
  | br (cond : String) (a b : Sk)  -- if/else, switch and select arms (nested)
  | loop (a : Sk)                  -- zero or more iterations
  | dfr (a : Sk)                   -- defer
  | spawn (a : Sk)                 -- go
  | fn (a : Sk)                    -- body of a function literal that is invoked here
  | acq (fail : Sk)                -- `err := acquireLock(..); if err != nil { fail }` fused
  deriving Repr, DecidableEq

/-- the action names of a skeleton in source order -/
def acts : Sk → List String
  | .act n => [n]
  | .seq a b => acts a ++ acts b
  | .br _ a b => acts a ++ acts b
  | .loop a => acts a
  | .dfr a => acts a
  | .spawn a => acts a
  | .fn a => acts a
  | .acq f => "acquireLock" :: acts f
  | _ => []

/-- `a` occurs before `b` in the list -/
def before (a b : String) (l : List String) : Bool :=
  (l.dropWhile (· != a)).contains b && l.contains a

/-- the top-level statement sequence of a body -/
def flatSeq : Sk → List Sk
  | .seq a b => flatSeq a ++ flatSeq b
  | .skip => []
  | s => [s]

def isAcq : Sk → Bool
  | .acq _ => true
  | _ => false

/-- action names before / after the first top-level acquire (`none` if there is none) -/
def splitAtAcq (body : Sk) : Option (List String × List String) :=
  let l := flatSeq body
  let pre := l.takeWhile (fun s => !isAcq s)
  match l.dropWhile (fun s => !isAcq s) with
  | [] => none
  | _ :: post => some (pre.flatMap acts, post.flatMap acts)

/-- `crit` actions occur only after the acquire (and do occur); `recheck` precedes the
first `crit.head` there -/
def insideLock (body : Sk) (crit : List String) (recheck : String) : Bool :=
  match splitAtAcq body with
  | none => false
  | some (pre, post) =>
    crit.all (fun c => !pre.contains c && post.contains c) &&
    (match crit with
     | c :: _ => before recheck c post
     | [] => true)

/-- the name of the release action -/
def releaseName : String := "releaseLock"

/-- does the (deferred) block perform the release as its first action? -/
def releases : Sk → Bool
  | .act n => n == releaseName
  | .seq a _ => releases a
  | .fn a => releases a
  | _ => false

/-- the statement right after the first top-level acquire is a deferred release -/
def deferRightAfterAcq (body : Sk) : Bool :=
  match (flatSeq body).dropWhile (fun s => !isAcq s) with
  | _ :: .dfr a :: _ => releases a
  | _ => false

/-- no lock is acquired inside -/
def noAcq : Sk → Bool
  | .acq _ => false
  | .seq a b => noAcq a && noAcq b
  | .br _ a b => noAcq a && noAcq b
  | .loop a => noAcq a
  | .dfr a => noAcq a
  | .spawn a => noAcq a
  | .fn a => noAcq a
  | _ => true

/-- every execution of the block leaves the function (used for the failure block of `acq`) -/
def mustExit : Sk → Bool
  | .ret => true
  | .pnc => true
  | .seq a b => mustExit a || mustExit b
  | .br _ a b => mustExit a && mustExit b
  | _ => false

inductive Out | normal | returned | panicked
  deriving DecidableEq, Repr

/-- Big-step semantics over `pending` = number of locks this function has acquired that are
neither released nor covered by a registered deferred release. Every call may panic;
`acquireLock` may fail (then the fused failure block runs); a deferred release covers one
lock (it runs on every exit, return or panic); a direct release releases one lock.
Assumption (C09 "Assumed"): the release itself neither fails nor panics. -/
inductive Exec : Sk → Nat → Out → Nat → Prop
  | actRel {p} : Exec (.act releaseName) p .normal (p - 1)
  | actOk {n p} : n ≠ releaseName → Exec (.act n) p .normal p
  | actPanic {n p} : n ≠ releaseName → Exec (.act n) p .panicked p
  | ret {p} : Exec .ret p .returned p
  | pnc {p} : Exec .pnc p .panicked p
  | skip {p} : Exec .skip p .normal p
  | seqStop {a b p o q} : o ≠ .normal → Exec a p o q → Exec (.seq a b) p o q
  | seqGo {a b p q o r} : Exec a p .normal q → Exec b q o r → Exec (.seq a b) p o r
  | brL {c a b p o q} : Exec a p o q → Exec (.br c a b) p o q
  | brR {c a b p o q} : Exec b p o q → Exec (.br c a b) p o q
  | loopDone {a p} : Exec (.loop a) p .normal p
  | loopStop {a p o q} : o ≠ .normal → Exec a p o q → Exec (.loop a) p o q
  | loopGo {a p q o r} : Exec a p .normal q → Exec (.loop a) q o r → Exec (.loop a) p o r
  | dfrRel {a p} : releases a = true → Exec (.dfr a) p .normal (p - 1)
  | dfrOther {a p} : releases a = false → Exec (.dfr a) p .normal p
  | spawn {a p} : Exec (.spawn a) p .normal p
  | fnNormal {a p q} : Exec a p .normal q → Exec (.fn a) p .normal q
  | fnReturned {a p q} : Exec a p .returned q → Exec (.fn a) p .normal q
  | fnPanicked {a p q} : Exec a p .panicked q → Exec (.fn a) p .panicked q
  | acqOk {f p} : Exec (.acq f) p .normal (p + 1)
  | acqFail {f p o q} : Exec f p o q → Exec (.acq f) p o q

/-- The checker. `some q`: accepted, and `q` is `pending` after normal completion. Every
point at which the function can be left (return, panic, any call) must have `pending = 0`. -/
def check : Sk → Nat → Option Nat
  | .act n, p => if n = releaseName then some (p - 1) else if p = 0 then some 0 else none
  | .ret, p => if p = 0 then some 0 else none
  | .pnc, p => if p = 0 then some 0 else none
  | .skip, p => some p
  | .seq a b, p => (check a p).bind (check b)
  | .br _ a b, p =>
      match check a p, check b p with
      | some q, some r => if q = r then some q else none
      | _, _ => none
  | .loop a, p => match check a p with
      | some q => if q = p then some p else none
      | none => none
  | .dfr a, p => if releases a then some (p - 1) else if noAcq a then some p else none
  | .spawn a, p => if noAcq a then some p else none
  | .fn a, p => if p = 0 then (match check a 0 with | some 0 => some 0 | _ => none) else none
  | .acq f, p => if p = 0 ∧ mustExit f = true then (match check f 0 with | some 0 => some 1 | _ => none) else none

theorem mustExit_sound {s : Sk} {p : Nat} {o : Out} {q : Nat} (he : Exec s p o q)
    (hm : mustExit s = true) : o ≠ .normal := by
  induction he with
  | actRel => simp [mustExit] at hm
  | actOk => simp [mustExit] at hm
  | actPanic => simp
  | ret => simp
  | pnc => simp
  | skip => simp [mustExit] at hm
  | seqStop ho _ _ => exact ho
  | seqGo _ _ ih1 ih2 =>
    simp only [mustExit, Bool.or_eq_true] at hm
    rcases hm with h | h
    · exact absurd rfl (ih1 h)
    · exact ih2 h
  | brL _ ih => simp only [mustExit, Bool.and_eq_true] at hm; exact ih hm.1
  | brR _ ih => simp only [mustExit, Bool.and_eq_true] at hm; exact ih hm.2
  | loopDone => simp [mustExit] at hm
  | loopStop ho _ _ => exact ho
  | loopGo _ _ _ _ => simp [mustExit] at hm
  | dfrRel _ => simp [mustExit] at hm
  | dfrOther _ => simp [mustExit] at hm
  | spawn => simp [mustExit] at hm
  | fnNormal _ _ => simp [mustExit] at hm
  | fnReturned _ _ => simp [mustExit] at hm
  | fnPanicked _ _ => simp
  | acqOk => simp [mustExit] at hm
  | acqFail _ _ => simp [mustExit] at hm

/-- Soundness: an accepted skeleton never leaves the function — by return or by panic, at
any call — with a lock that is neither released nor covered by a deferred release. -/
theorem check_sound {s : Sk} {p q : Nat} {o : Out} {r : Nat}
    (hc : check s p = some q) (he : Exec s p o r) :
    (o = .normal → r = q) ∧ (o ≠ .normal → r = 0) := by
  induction he generalizing q with
  | actRel => simp [check] at hc; simp [hc]
  | actOk hn => simp [check, hn] at hc; simp [hc.1, hc.2.symm]
  | actPanic hn => simp [check, hn] at hc; simp [hc.1]
  | ret => simp [check] at hc; simp [hc.1]
  | pnc => simp [check] at hc; simp [hc.1]
  | skip => simp [check] at hc; simp [hc]
  | @seqStop a b p o q' ho _ ih =>
    simp only [check] at hc
    cases hca : check a p with
    | none => simp [hca] at hc
    | some q1 => exact ⟨fun h => absurd h ho, fun _ => (ih hca).2 ho⟩
  | @seqGo a b p q' o r _ _ ih1 ih2 =>
    simp only [check] at hc
    cases hca : check a p with
    | none => simp [hca] at hc
    | some q1 =>
      simp [hca] at hc
      have := (ih1 hca).1 rfl; subst this
      exact ih2 hc
  | brL _ ih =>
    simp only [check] at hc
    split at hc
    · rename_i q1 r1 h1 h2; split at hc <;> simp at hc; subst hc; exact ih h1
    · simp at hc
  | brR _ ih =>
    simp only [check] at hc
    split at hc
    · rename_i q1 r1 h1 h2; split at hc <;> simp at hc; subst hc; rename_i heq; subst heq; exact ih h2
    · simp at hc
  | loopDone =>
    simp only [check] at hc
    split at hc
    · split at hc <;> simp at hc; simp [hc]
    · simp at hc
  | @loopStop a p o q' ho _ ih =>
    simp only [check] at hc
    split at hc
    · rename_i q1 h1; exact ⟨fun h => absurd h ho, fun _ => (ih h1).2 ho⟩
    · simp at hc
  | loopGo _ _ ih1 ih2 =>
    have hc' := hc
    simp only [check] at hc
    split at hc
    · rename_i q1 h1
      split at hc <;> simp at hc
      rename_i heq; subst heq; subst hc
      have := (ih1 h1).1 rfl; subst this
      exact ih2 hc'
    · simp at hc
  | dfrRel hr => simp [check, hr] at hc; simp [hc]
  | dfrOther hr =>
    simp only [check, hr, Bool.false_eq_true, if_false] at hc
    split at hc
    · simp at hc; simp [hc]
    · simp at hc
  | spawn => simp only [check] at hc; split at hc <;> simp at hc; simp [hc]
  | @fnNormal a p q' _ ih =>
    simp only [check] at hc
    split at hc
    · rename_i hp; subst hp
      split at hc
      · rename_i h0; simp at hc; subst hc
        exact ⟨fun _ => (ih h0).1 rfl, fun h => absurd rfl h⟩
      · simp at hc
    · simp at hc
  | @fnReturned a p q' _ ih =>
    simp only [check] at hc
    split at hc
    · rename_i hp; subst hp
      split at hc
      · rename_i h0; simp at hc; subst hc
        exact ⟨fun _ => (ih h0).2 (by decide), fun h => absurd rfl h⟩
      · simp at hc
    · simp at hc
  | @fnPanicked a p q' _ ih =>
    simp only [check] at hc
    split at hc
    · rename_i hp; subst hp
      split at hc
      · rename_i h0; simp at hc; subst hc
        exact ⟨fun h => (by cases h), fun _ => (ih h0).2 (by decide)⟩
      · simp at hc
    · simp at hc
  | acqOk =>
    simp only [check] at hc
    split at hc
    · rename_i hp; obtain ⟨hp, _⟩ := hp; subst hp
      split at hc
      · simp at hc; subst hc; exact ⟨fun _ => rfl, fun h => absurd rfl h⟩
      · simp at hc
    · simp at hc
  | @acqFail f p o q' hf ih =>
    simp only [check] at hc
    split at hc
    · rename_i hp; obtain ⟨hp, hm⟩ := hp; subst hp
      split at hc
      · rename_i h0; simp at hc; subst hc
        have hne := mustExit_sound hf hm
        exact ⟨fun ho => absurd ho hne, (ih h0).2⟩
      · simp at hc
    · simp at hc

end CM.Skel
