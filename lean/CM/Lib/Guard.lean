import CM.Lib.Skel
/-
Verified *guarded state* checker (DESIGN 2.1-L4 c): every access to a piece of shared state
(a named map, a ring, a counter …) lies inside a critical section of its mutex — on every
path, through branches, loops, closures, deferred unlocks, early returns and panics.

`P` classifies action names (generated from source and normalised by the translator):
`lock`, `unlock`, `access` (reads/writes/deletes of the guarded state and calls of
"unsynced" helpers that expect the mutex to be held). The checker propagates the SET of
possible mutex states of the current goroutine — free, held, held with a deferred unlock
registered in the current function frame — and accepts an access only if the mutex is
certainly held. Soundness is proved against an instrumented big-step semantics that records
whether an access (or a lock/unlock in the wrong state) ever happened outside the discipline.
-/
namespace CM.Guard
open CM.Skel

structure Names where
  lock   : String → Bool
  unlock : String → Bool
  access : String → Bool

/-- mutex state of the executing goroutine -/
inductive M
  | free
  | held      -- held, no deferred unlock registered in this frame
  | heldD     -- held, and this frame has registered `defer unlock`
  deriving DecidableEq, Repr

def M.isHeld : M → Bool
  | .free => false
  | _ => true

/-- leaving a function frame runs its deferred unlock -/
def M.leave : M → M
  | .heldD => .free
  | m => m

/-- a set of possible mutex states -/
structure HSet where
  f : Bool
  t : Bool
  d : Bool
  deriving DecidableEq, Repr

def HSet.empty : HSet := ⟨false, false, false⟩
def HSet.only : M → HSet
  | .free => ⟨true, false, false⟩
  | .held => ⟨false, true, false⟩
  | .heldD => ⟨false, false, true⟩
def HSet.mem (m : M) (S : HSet) : Bool :=
  match m with
  | .free => S.f
  | .held => S.t
  | .heldD => S.d
def HSet.union (A B : HSet) : HSet := ⟨A.f || B.f, A.t || B.t, A.d || B.d⟩
def HSet.sub (A B : HSet) : Bool := (!A.f || B.f) && (!A.t || B.t) && (!A.d || B.d)
def HSet.leave (S : HSet) : HSet := ⟨S.f || S.d, S.t, false⟩
def HSet.onlyFree (S : HSet) : Bool := !S.t && !S.d
def HSet.allHeld (S : HSet) : Bool := !S.f

theorem mem_union {m : M} {A B : HSet} : (A.union B).mem m = (A.mem m || B.mem m) := by
  cases m <;> simp [HSet.mem, HSet.union]

theorem mem_of_sub {m : M} {A B : HSet} (hs : A.sub B = true) (hm : A.mem m = true) : B.mem m = true := by
  cases m <;> simp [HSet.mem, HSet.sub] at * <;> simp_all

theorem mem_leave {m : M} {S : HSet} (hm : S.mem m = true) : S.leave.mem m.leave = true := by
  cases m <;> simp [HSet.mem, HSet.leave, M.leave] at * <;> simp [hm]

theorem onlyFree_mem {S : HSet} {m : M} (ho : S.onlyFree = true) (hm : S.mem m = true) : m = .free := by
  cases m
  · rfl
  · simp [HSet.onlyFree, HSet.mem] at *; simp [ho.1] at hm
  · simp [HSet.onlyFree, HSet.mem] at *; simp [ho.2] at hm

theorem allHeld_mem {S : HSet} {m : M} (ho : S.allHeld = true) (hm : S.mem m = true) : m.isHeld = true := by
  cases m
  · simp [HSet.allHeld, HSet.mem] at *; simp [ho] at hm
  · rfl
  · rfl

theorem only_mem_self (m : M) : (HSet.only m).mem m = true := by cases m <;> rfl

/-- does the block (a deferred call) unlock as its first action? -/
def unlocksFirst (P : Names) : Sk → Bool
  | .act n => P.unlock n
  | .seq a _ => unlocksFirst P a
  | .fn a => unlocksFirst P a
  | _ => false

/-- the block touches neither the mutex nor the guarded state -/
def inert (P : Names) : Sk → Bool
  | .act n => !P.lock n && !P.unlock n && !P.access n
  | .seq a b => inert P a && inert P b
  | .br _ a b => inert P a && inert P b
  | .loop a => inert P a
  | .dfr a => inert P a
  | .spawn a => inert P a
  | .fn a => inert P a
  | .acq f => inert P f
  | _ => true

/-- deferred blocks of the current function frame that are neither an unlock nor inert: they
are critical sections of their own, run when the frame is left (checked by `fnOK`) -/
def deferredBlocks (P : Names) : Sk → List Sk
  | .dfr a => if unlocksFirst P a || inert P a then [] else [a]
  | .seq a b => deferredBlocks P a ++ deferredBlocks P b
  | .br _ a b => deferredBlocks P a ++ deferredBlocks P b
  | .loop a => deferredBlocks P a
  | .acq f => deferredBlocks P f
  | _ => []

/-- instrumented semantics: mutex state before/after, outcome, and `viol` = something
happened outside the discipline: an access without the mutex, locking a mutex this goroutine
already holds, unlocking a free mutex or one whose unlock is already deferred, deferring an
unlock without holding. -/
inductive Exec (P : Names) : Sk → M → Out → M → Bool → Prop
  | lock {n m} : P.lock n = true → Exec P (.act n) m .normal .held (decide (m ≠ .free))
  | unlock {n m} : P.unlock n = true → P.lock n = false → Exec P (.act n) m .normal .free (decide (m ≠ .held))
  | access {n m} : P.access n = true → P.lock n = false → P.unlock n = false → Exec P (.act n) m .normal m (!m.isHeld)
  | accessPanic {n m} : P.access n = true → P.lock n = false → P.unlock n = false → Exec P (.act n) m .panicked m (!m.isHeld)
  | other {n m} : P.access n = false → P.lock n = false → P.unlock n = false → Exec P (.act n) m .normal m false
  | otherPanic {n m} : P.access n = false → P.lock n = false → P.unlock n = false → Exec P (.act n) m .panicked m false
  | ret {m} : Exec P .ret m .returned m false
  | pnc {m} : Exec P .pnc m .panicked m false
  | skip {m} : Exec P .skip m .normal m false
  | seqStop {a b m o m' v} : o ≠ .normal → Exec P a m o m' v → Exec P (.seq a b) m o m' v
  | seqGo {a b m m1 v1 o m2 v2} : Exec P a m .normal m1 v1 → Exec P b m1 o m2 v2 → Exec P (.seq a b) m o m2 (v1 || v2)
  | brL {c a b m o m' v} : Exec P a m o m' v → Exec P (.br c a b) m o m' v
  | brR {c a b m o m' v} : Exec P b m o m' v → Exec P (.br c a b) m o m' v
  | loopDone {a m} : Exec P (.loop a) m .normal m false
  | loopStop {a m o m' v} : o ≠ .normal → Exec P a m o m' v → Exec P (.loop a) m o m' v
  | loopGo {a m m1 v1 o m2 v2} : Exec P a m .normal m1 v1 → Exec P (.loop a) m1 o m2 v2 → Exec P (.loop a) m o m2 (v1 || v2)
  | dfrUnlock {a m} : unlocksFirst P a = true → Exec P (.dfr a) m .normal .heldD (decide (m ≠ .held))
  | dfrOther {a m} : unlocksFirst P a = false → Exec P (.dfr a) m .normal m false
  | spawn {a m} : Exec P (.spawn a) m .normal m false
  | fnNormal {a m m' v} : Exec P a m .normal m' v → Exec P (.fn a) m .normal m'.leave v
  | fnReturned {a m m' v} : Exec P a m .returned m' v → Exec P (.fn a) m .normal m'.leave v
  | fnPanicked {a m m' v} : Exec P a m .panicked m' v → Exec P (.fn a) m .panicked m'.leave v
  | acqOk {f m} : Exec P (.acq f) m .normal m false
  | acqFail {f m o m' v} : Exec P f m o m' v → Exec P (.acq f) m o m' v

structure Res where
  norm : HSet     -- possible mutex states after normal completion
  ret  : HSet     -- … at a `return` leaving the current function literal
  pan  : HSet     -- … at a panic
  deriving DecidableEq, Repr

/-- frame exit of a function literal that is invoked in place -/
def leaveFrame (r : Res) : Res := ⟨(r.norm.union r.ret).leave, .empty, r.pan.leave⟩

/-- the checker: `none` = rejected -/
def chk (P : Names) : Sk → HSet → Option Res
  | .act n, S =>
    if P.lock n then (if S.t || S.d then none else some ⟨if S.f then .only .held else .empty, .empty, .empty⟩)
    else if P.unlock n then (if S.f || S.d then none else some ⟨if S.t then .only .free else .empty, .empty, .empty⟩)
    else if P.access n then (if S.f then none else some ⟨S, .empty, S⟩)
    else some ⟨S, .empty, S⟩
  | .ret, S => some ⟨.empty, S, .empty⟩
  | .pnc, S => some ⟨.empty, .empty, S⟩
  | .skip, S => some ⟨S, .empty, .empty⟩
  | .seq a b, S =>
    match chk P a S with
    | none => none
    | some r1 =>
      match chk P b r1.norm with
      | none => none
      | some r2 => some ⟨r2.norm, r1.ret.union r2.ret, r1.pan.union r2.pan⟩
  | .br _ a b, S =>
    match chk P a S, chk P b S with
    | some r1, some r2 => some ⟨r1.norm.union r2.norm, r1.ret.union r2.ret, r1.pan.union r2.pan⟩
    | _, _ => none
  | .loop a, S =>
    -- S must be an invariant of the body
    match chk P a S with
    | none => none
    | some r => if r.norm.sub S then some ⟨S, r.ret, r.pan⟩ else none
  | .dfr a, S =>
    if unlocksFirst P a then (if S.f || S.d then none else some ⟨if S.t then .only .heldD else .empty, .empty, .empty⟩)
    else some ⟨S, .empty, .empty⟩      -- registering is a no-op; what runs later is `fnOK`'s business
  | .spawn a, S =>
    -- a new goroutine starts without the mutex; whatever it does is checked from there
    match chk P a (.only .free) with
    | none => none
    | some _ => some ⟨S, .empty, .empty⟩
  | .fn a, S =>
    -- a nested function literal may defer an unlock, but no critical sections of its own
    if (deferredBlocks P a).isEmpty then
      match chk P a S with
      | none => none
      | some r => some (leaveFrame r)
    else none
  | .acq f, S =>
    match chk P f S with
    | none => none
    | some r => some ⟨S.union r.norm, r.ret, r.pan⟩

/-- Soundness: if the checker accepts a block from a set `S` of possible mutex states, then
every execution starting in a state of `S` stays inside the discipline and ends in a state of
`norm`, `ret` or `pan` according to how it ends. -/
theorem chk_sound {P : Names} {s : Sk} {m : M} {o : Out} {m' : M} {v : Bool}
    (he : Exec P s m o m' v) :
    ∀ {S : HSet} {r : Res}, chk P s S = some r → S.mem m = true →
      v = false ∧ (o = .normal → r.norm.mem m' = true) ∧ (o = .returned → r.ret.mem m' = true) ∧
        (o = .panicked → r.pan.mem m' = true) := by
  induction he with
  | @lock n m hl =>
    intro S r hc hm
    simp only [chk, hl, if_true] at hc
    split at hc
    · cases hc
    · rename_i hno
      simp at hc; subst hc
      have hmf : m = .free := by
        cases m
        · rfl
        · simp [HSet.mem] at hm; simp [hm] at hno
        · simp [HSet.mem] at hm; simp [hm] at hno
      subst hmf
      simp [HSet.mem] at hm
      simp [hm, only_mem_self]
  | @unlock n m hu hl =>
    intro S r hc hm
    simp only [chk, hl, hu, if_true, Bool.false_eq_true, if_false] at hc
    split at hc
    · cases hc
    · rename_i hno
      simp at hc; subst hc
      have hmh : m = .held := by
        cases m
        · simp [HSet.mem] at hm; simp [hm] at hno
        · rfl
        · simp [HSet.mem] at hm; simp [hm] at hno
      subst hmh
      simp [HSet.mem] at hm
      simp [hm, only_mem_self]
  | @access n m ha hl hu =>
    intro S r hc hm
    simp only [chk, hl, hu, ha, if_true, Bool.false_eq_true, if_false] at hc
    split at hc
    · cases hc
    · rename_i hf
      simp at hc; subst hc
      have hh : m.isHeld = true := by
        cases m
        · simp [HSet.mem] at hm; exact absurd hm hf
        · rfl
        · rfl
      exact ⟨by simp [hh], fun _ => hm, fun hn => (by cases hn), fun hn => (by cases hn)⟩
  | @accessPanic n m ha hl hu =>
    intro S r hc hm
    simp only [chk, hl, hu, ha, if_true, Bool.false_eq_true, if_false] at hc
    split at hc
    · cases hc
    · rename_i hf
      simp at hc; subst hc
      have hh : m.isHeld = true := by
        cases m
        · simp [HSet.mem] at hm; exact absurd hm hf
        · rfl
        · rfl
      exact ⟨by simp [hh], fun hn => (by cases hn), fun hn => (by cases hn), fun _ => hm⟩
  | @other n m ha hl hu =>
    intro S r hc hm
    simp only [chk, hl, hu, ha, Bool.false_eq_true, if_false] at hc
    simp at hc; subst hc
    exact ⟨rfl, fun _ => hm, fun hn => (by cases hn), fun hn => (by cases hn)⟩
  | @otherPanic n m ha hl hu =>
    intro S r hc hm
    simp only [chk, hl, hu, ha, Bool.false_eq_true, if_false] at hc
    simp at hc; subst hc
    exact ⟨rfl, fun hn => (by cases hn), fun hn => (by cases hn), fun _ => hm⟩
  | ret =>
    intro S r hc hm
    simp [chk] at hc; subst hc
    exact ⟨rfl, fun hn => (by cases hn), fun _ => hm, fun hn => (by cases hn)⟩
  | pnc =>
    intro S r hc hm
    simp [chk] at hc; subst hc
    exact ⟨rfl, fun hn => (by cases hn), fun hn => (by cases hn), fun _ => hm⟩
  | skip =>
    intro S r hc hm
    simp [chk] at hc; subst hc
    exact ⟨rfl, fun _ => hm, fun hn => (by cases hn), fun hn => (by cases hn)⟩
  | @seqStop a b m o m' v ho _ ih =>
    intro S r hc hm
    simp only [chk] at hc
    cases h1 : chk P a S with
    | none => simp [h1] at hc
    | some r1 =>
      simp only [h1] at hc
      cases h2 : chk P b r1.norm with
      | none => simp [h2] at hc
      | some r2 =>
        simp only [h2] at hc
        simp at hc; subst hc
        obtain ⟨hv, _, hr, hp⟩ := ih h1 hm
        exact ⟨hv, fun hn => absurd hn ho, fun e => by simp [mem_union, hr e], fun e => by simp [mem_union, hp e]⟩
  | @seqGo a b m m1 v1 o m2 v2 _ _ ih1 ih2 =>
    intro S r hc hm
    simp only [chk] at hc
    cases hc1 : chk P a S with
    | none => simp [hc1] at hc
    | some r1 =>
      simp only [hc1] at hc
      cases hc2 : chk P b r1.norm with
      | none => simp [hc2] at hc
      | some r2 =>
        simp only [hc2] at hc
        simp at hc; subst hc
        obtain ⟨hv1, hn1, _, _⟩ := ih1 hc1 hm
        obtain ⟨hv2, hn2, hr2, hp2⟩ := ih2 hc2 (hn1 rfl)
        exact ⟨by simp [hv1, hv2], hn2, fun e => by simp [mem_union, hr2 e], fun e => by simp [mem_union, hp2 e]⟩
  | brL _ ih =>
    intro S r hc hm
    simp only [chk] at hc
    split at hc
    · rename_i r1 r2 h1 h2
      simp at hc; subst hc
      obtain ⟨hv, hn, hr, hp⟩ := ih h1 hm
      exact ⟨hv, fun e => by simp [mem_union, hn e], fun e => by simp [mem_union, hr e], fun e => by simp [mem_union, hp e]⟩
    · cases hc
  | brR _ ih =>
    intro S r hc hm
    simp only [chk] at hc
    split at hc
    · rename_i r1 r2 h1 h2
      simp at hc; subst hc
      obtain ⟨hv, hn, hr, hp⟩ := ih h2 hm
      exact ⟨hv, fun e => by simp [mem_union, hn e], fun e => by simp [mem_union, hr e], fun e => by simp [mem_union, hp e]⟩
    · cases hc
  | loopDone =>
    intro S r hc hm
    simp only [chk] at hc
    split at hc
    · cases hc
    · split at hc
      · simp at hc; subst hc
        exact ⟨rfl, fun _ => hm, fun hn => (by cases hn), fun hn => (by cases hn)⟩
      · cases hc
  | @loopStop a m o m' v ho _ ih =>
    intro S r hc hm
    simp only [chk] at hc
    split at hc
    · cases hc
    · rename_i r1 h1
      split at hc
      · simp at hc; subst hc
        obtain ⟨hv, _, hr, hp⟩ := ih h1 hm
        exact ⟨hv, fun hn => absurd hn ho, hr, hp⟩
      · cases hc
  | @loopGo a m m1 v1 o m2 v2 _ _ ih1 ih2 =>
    intro S r hc hm
    have hc' := hc
    simp only [chk] at hc
    split at hc
    · cases hc
    · rename_i r1 hr1
      split at hc
      · rename_i hsub
        simp at hc; subst hc
        obtain ⟨hv1, hn1, _, _⟩ := ih1 hr1 hm
        have hm1 : S.mem m1 = true := mem_of_sub hsub (hn1 rfl)
        obtain ⟨hv2, hn2, hr2, hp2⟩ := ih2 hc' hm1
        exact ⟨by simp [hv1, hv2], hn2, hr2, hp2⟩
      · cases hc
  | @dfrUnlock a m hu =>
    intro S r hc hm
    simp only [chk, hu, if_true] at hc
    split at hc
    · cases hc
    · rename_i hno
      simp at hc; subst hc
      have hmh : m = .held := by
        cases m
        · simp [HSet.mem] at hm; simp [hm] at hno
        · rfl
        · simp [HSet.mem] at hm; simp [hm] at hno
      subst hmh
      simp [HSet.mem] at hm
      simp [hm, only_mem_self]
  | @dfrOther a m hu =>
    intro S r hc hm
    simp only [chk, hu, Bool.false_eq_true, if_false] at hc
    simp at hc; subst hc
    exact ⟨rfl, fun _ => hm, fun hn => (by cases hn), fun hn => (by cases hn)⟩
  | spawn =>
    intro S r hc hm
    simp only [chk] at hc
    split at hc
    · cases hc
    · simp at hc; subst hc
      exact ⟨rfl, fun _ => hm, fun hn => (by cases hn), fun hn => (by cases hn)⟩
  | @fnNormal a m m' v _ ih =>
    intro S r hc hm
    simp only [chk] at hc
    split at hc
    · split at hc
      · cases hc
      · rename_i r1 h1
        simp at hc; subst hc
        obtain ⟨hv, hn, _, _⟩ := ih h1 hm
        refine ⟨hv, fun _ => ?_, fun hn => (by cases hn), fun hn => (by cases hn)⟩
        exact mem_leave (by simp [mem_union, hn rfl])
    · cases hc
  | @fnReturned a m m' v _ ih =>
    intro S r hc hm
    simp only [chk] at hc
    split at hc
    · split at hc
      · cases hc
      · rename_i r1 h1
        simp at hc; subst hc
        obtain ⟨hv, _, hr, _⟩ := ih h1 hm
        refine ⟨hv, fun _ => ?_, fun hn => (by cases hn), fun hn => (by cases hn)⟩
        exact mem_leave (by simp [mem_union, hr rfl])
    · cases hc
  | @fnPanicked a m m' v _ ih =>
    intro S r hc hm
    simp only [chk] at hc
    split at hc
    · split at hc
      · cases hc
      · rename_i r1 h1
        simp at hc; subst hc
        obtain ⟨hv, _, _, hp⟩ := ih h1 hm
        refine ⟨hv, fun hn => (by cases hn), fun hn => (by cases hn), fun _ => ?_⟩
        exact mem_leave (hp rfl)
    · cases hc
  | acqOk =>
    intro S r hc hm
    simp only [chk] at hc
    split at hc
    · cases hc
    · simp at hc; subst hc
      exact ⟨rfl, fun _ => by simp [mem_union, hm], fun hn => (by cases hn), fun hn => (by cases hn)⟩
  | acqFail _ ih =>
    intro S r hc hm
    simp only [chk] at hc
    split at hc
    · cases hc
    · rename_i r1 h1
      simp at hc; subst hc
      obtain ⟨hv, hn, hr, hp⟩ := ih h1 hm
      exact ⟨hv, fun e => by simp [mem_union, hn e], hr, hp⟩

/-! ### function level: the body, then its deferred critical sections -/

/-- a deferred block that is a critical section of its own: accepted entered "free" and,
unless it panics, left "free" -/
def balanced (P : Names) (a : Sk) : Bool :=
  match chk P (.fn a) (.only .free) with
  | some r => r.norm.onlyFree
  | none => false

/-- the frame registers a deferred unlock somewhere -/
def hasDeferUnlock (P : Names) : Sk → Bool
  | .dfr a => unlocksFirst P a
  | .seq a b => hasDeferUnlock P a || hasDeferUnlock P b
  | .br _ a b => hasDeferUnlock P a || hasDeferUnlock P b
  | .loop a => hasDeferUnlock P a
  | .acq f => hasDeferUnlock P f
  | _ => false

/-- Function-level acceptance: the body is accepted entered with the mutex free; unless it
panics it is left (after its deferred unlock, if any) with the mutex free; its deferred
critical sections are balanced; and it does not mix a deferred unlock with deferred critical
sections (Go runs deferred calls last-in-first-out; the mix is rejected rather than modelled). -/
def fnOK (P : Names) (body : Sk) : Bool :=
  match chk P body (.only .free) with
  | none => false
  | some r =>
    (leaveFrame r).norm.onlyFree &&
    (deferredBlocks P body).all (balanced P) &&
    !(hasDeferUnlock P body && !(deferredBlocks P body).isEmpty)

/-- run some of the frame's deferred blocks, one after the other; a panicking block ends the run -/
inductive RunDefs (P : Names) : List Sk → M → M → Bool → Prop
  | nil {m} : RunDefs P [] m m false
  | skip {d ds m m' v} : RunDefs P ds m m' v → RunDefs P (d :: ds) m m' v
  | run {d ds m m1 v1 m2 v2} : Exec P (.fn d) m .normal m1 v1 → RunDefs P ds m1 m2 v2 →
      RunDefs P (d :: ds) m m2 (v1 || v2)
  | panic {d ds m m1 v1} : Exec P (.fn d) m .panicked m1 v1 → RunDefs P (d :: ds) m m1 v1

theorem runDefs_sound {P : Names} {ds : List Sk} (hb : ds.all (balanced P) = true)
    {m m' : M} {v : Bool} (hr : RunDefs P ds m m' v) (hh : m = .free) : v = false := by
  induction hr with
  | nil => rfl
  | skip _ ih =>
    simp only [List.all_cons, Bool.and_eq_true] at hb
    exact ih hb.2 hh
  | @run d ds m m1 v1 m2 v2 he _ ih =>
    simp only [List.all_cons, Bool.and_eq_true] at hb
    obtain ⟨hbd, hbs⟩ := hb
    unfold balanced at hbd
    cases hc : chk P (.fn d) (.only .free) with
    | none => simp [hc] at hbd
    | some r =>
      simp only [hc] at hbd
      subst hh
      obtain ⟨hv1, hn, _, _⟩ := chk_sound he hc (only_mem_self _)
      have hh1 : m1 = .free := onlyFree_mem hbd (hn rfl)
      have hv2 := ih hbs hh1
      simp [hv1, hv2]
  | @panic d ds m m1 v1 he =>
    simp only [List.all_cons, Bool.and_eq_true] at hb
    obtain ⟨hbd, _⟩ := hb
    unfold balanced at hbd
    cases hc : chk P (.fn d) (.only .free) with
    | none => simp [hc] at hbd
    | some r =>
      subst hh
      exact (chk_sound he hc (only_mem_self _)).1

/-- **Soundness, function level.** If `fnOK` accepts a function body, then in every execution
— the body entered with the mutex free and left by normal completion, return, or a panic at
any call; then (unless it panicked) its deferred unlock and any of its deferred critical
sections run — nothing happens outside the discipline: no access to the guarded state
without the mutex, no self-deadlocking lock, no unlock of a mutex that is not held. -/
theorem fnOK_sound {P : Names} {body : Sk} (hok : fnOK P body = true)
    {o : Out} {m1 : M} {v1 : Bool} (he : Exec P body .free o m1 v1) :
    v1 = false ∧
    (o ≠ .panicked → m1.leave = .free ∧
      ∀ {sub : List Sk}, sub.Sublist (deferredBlocks P body) →
        ∀ {m2 : M} {v2 : Bool}, RunDefs P sub m1.leave m2 v2 → v2 = false) := by
  unfold fnOK at hok
  cases hc : chk P body (.only .free) with
  | none => simp [hc] at hok
  | some r =>
    simp only [hc, Bool.and_eq_true] at hok
    obtain ⟨⟨hn, hall⟩, _⟩ := hok
    obtain ⟨hv1, hnm, hrm, _⟩ := chk_sound he hc (only_mem_self _)
    refine ⟨hv1, ?_⟩
    intro ho
    have hmem : (r.norm.union r.ret).mem m1 = true := by
      cases o
      · simp [mem_union, hnm rfl]
      · simp [mem_union, hrm rfl]
      · exact absurd rfl ho
    have hfree : m1.leave = .free := onlyFree_mem hn (mem_leave hmem)
    refine ⟨hfree, ?_⟩
    intro sub hsub m2 v2 hr
    have hall' : sub.all (balanced P) = true := by
      rw [List.all_eq_true] at hall ⊢
      intro d hd
      exact hall d (hsub.subset hd)
    rw [hfree] at hr
    exact runDefs_sound hall' hr rfl

/-- acceptance without a requirement on the final state (used where the "mutex" is a
one-way gate that is never released: *gate domination*) -/
def entryOK (P : Names) (body : Sk) : Bool := (chk P body (.only .free)).isSome

theorem entryOK_sound {P : Names} {body : Sk} (hok : entryOK P body = true)
    {o : Out} {m : M} {v : Bool} (he : Exec P body .free o m v) : v = false := by
  unfold entryOK at hok
  cases hc : chk P body (.only .free) with
  | none => simp [hc] at hok
  | some r => exact (chk_sound he hc (only_mem_self _)).1

/-- a helper that expects the mutex to be held by its caller: accepted entered "held",
never releases it, defers nothing that touches the state -/
def helperOK (P : Names) (body : Sk) : Bool :=
  (deferredBlocks P body).isEmpty && !hasDeferUnlock P body &&
  match chk P body (.only .held) with
  | some r => r.norm.allHeld && r.ret.allHeld && r.pan.allHeld
  | none => false

theorem helperOK_sound {P : Names} {body : Sk} (hok : helperOK P body = true)
    {o : Out} {m' : M} {v : Bool} (he : Exec P body .held o m' v) : v = false ∧ m'.isHeld = true := by
  unfold helperOK at hok
  simp only [Bool.and_eq_true] at hok
  obtain ⟨_, hm⟩ := hok
  cases hc : chk P body (.only .held) with
  | none => simp [hc] at hm
  | some r =>
    simp only [hc, Bool.and_eq_true] at hm
    obtain ⟨⟨h1, h2⟩, h3⟩ := hm
    obtain ⟨hv, hn, hr, hp⟩ := chk_sound he hc (only_mem_self _)
    refine ⟨hv, ?_⟩
    cases o
    · exact allHeld_mem h1 (hn rfl)
    · exact allHeld_mem h2 (hr rfl)
    · exact allHeld_mem h3 (hp rfl)

end CM.Guard
