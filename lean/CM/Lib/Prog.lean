/-
Resumable *effect programs* (DESIGN §6): a model of sequential Go code as a tree whose
inner nodes are the calls the code makes to its environment (doubles, shared in-process
state). Every effect has a Boolean response (richer answers are asked as several
effects, exactly as the Go code tests them one `if` at a time); `spawn` starts a
goroutine whose result is dropped; `sub` is a call of a sub-program (semantically the
same as grafting its tree in, but kept as a node so that checkers can summarise the
callee once instead of once per leaf). Models are written in do-notation in the
continuation-passing monad `TProg` and turned into trees by `reify`.

One program, three uses:
 * `run p oracle n` resolves every response by an oracle and yields the effect trace of
   the thread itself, the traces of all goroutines it started, and the result;
 * the all-paths analysis `analyze` runs a trace monitor (`Mon`) over every path of the
   program; its soundness theorem lifts a `decide` over the finite tree to a statement
   about every oracle — the quantifier *is* the finite tree;
 * the driver walks the program along an *observed* trace (CM/Drv/C02).
Core Lean only.
-/
namespace CM.Prog

/-- result types of (sub-)programs and monitor states are small finite types with a numbering -/
class Code (α : Type) where
  enc : α → Nat
  dec : Nat → α
  dec_enc : ∀ a, dec (enc a) = a
  lt : ∀ a, enc a < 256
  /-- `force a f = f a`, written so that evaluating it evaluates `a` first (kernel
  reduction is lazy; without this, monitor states pile up as unevaluated terms) -/
  force : {β : Type} → α → (α → β) → β
  force_eq : ∀ {β : Type} (a : α) (f : α → β), force a f = f a

instance : Code Unit where
  enc := fun _ => 0
  dec := fun _ => ()
  dec_enc := fun _ => rfl
  lt := fun _ => by decide
  force := fun a f => f a
  force_eq := fun _ _ => rfl

instance : Code Bool where
  enc := fun b => if b then 1 else 0
  dec := fun n => n == 1
  dec_enc := fun b => by cases b <;> rfl
  lt := fun b => by cases b <;> decide
  force := fun b f => match b with
    | true => f true
    | false => f false
  force_eq := fun b f => by cases b <;> rfl

/-- number of a (result number, state) pair -/
def pcode {σ : Type} [Code σ] (r : Nat) (s : σ) : Nat := r * 256 + Code.enc s
def psnd {σ : Type} [Code σ] (n : Nat) : σ := Code.dec (n % 256)

theorem pfst_pcode {σ : Type} [Code σ] (r : Nat) (s : σ) : pcode r s / 256 = r := by
  have := Code.lt s
  unfold pcode
  omega

theorem psnd_pcode {σ : Type} [Code σ] (r : Nat) (s : σ) : psnd (pcode r s) = s := by
  have := Code.lt s
  unfold psnd pcode
  rw [show (r * 256 + Code.enc s) % 256 = Code.enc s by omega]
  exact Code.dec_enc s

/-- the tree of a program; results are numbers (`Code.enc` of the typed result) -/
inductive Prog (ε : Type) where
  | done (r : Nat) : Prog ε
  | eff (e : ε) (k : Bool → Prog ε) : Prog ε
  | spawn (child : Prog ε) (k : Prog ε) : Prog ε
  | sub (p : Prog ε) (k : Nat → Prog ε) : Prog ε

/-- typed programs in continuation-passing form: a monad (so that models read like the Go
they follow) whose bind costs nothing; `reify` yields the tree -/
def TProg (ε : Type) (α : Type) : Type := (α → Prog ε) → Prog ε

instance {ε : Type} : Monad (TProg ε) where
  pure a := fun k => k a
  bind m f := fun k => m (fun a => f a k)

variable {ε : Type}

/-- perform an effect and return its response -/
def ask (e : ε) : TProg ε Bool := fun k => .eff e k
/-- perform an effect whose response is irrelevant -/
def act (e : ε) : TProg ε Unit := fun k => .eff e (fun _ => k ())
/-- the tree of a typed program -/
def reify {α : Type} [Code α] (p : TProg ε α) : Prog ε := p (fun a => .done (Code.enc a))
/-- `go child` -/
def fork (child : TProg ε Unit) : TProg ε Unit := fun k => .spawn (reify child) (k ())
/-- call a sub-program (kept as a node of the tree) -/
def call {β : Type} [Code β] (p : TProg ε β) : TProg ε β := fun k => .sub (reify p) (fun n => k (Code.dec n))

abbrev Trace (ε : Type) := List (ε × Bool)

/-- what a run produces: the thread's own effect trace, the traces of all goroutines
started (transitively) by it, the result number, and the next unused oracle index -/
structure Out (ε : Type) where
  main : Trace ε
  kids : List (Trace ε)
  res : Nat
  next : Nat

/-- resolve every response by `o` (the i-th effect performed, in depth-first order, is
answered `o i`, so every combination of responses is some oracle) -/
def run : Prog ε → (Nat → Bool) → Nat → Out ε
  | .done r, _, n => ⟨[], [], r, n⟩
  | .eff e k, o, n =>
      let r := run (k (o n)) o (n + 1)
      ⟨(e, o n) :: r.main, r.kids, r.res, r.next⟩
  | .spawn c k, o, n =>
      let rc := run c o n
      let rk := run k o rc.next
      ⟨rk.main, rc.main :: (rc.kids ++ rk.kids), rk.res, rk.next⟩
  | .sub p k, o, n =>
      let rp := run p o n
      let rk := run (k rp.res) o rp.next
      ⟨rp.main ++ rk.main, rp.kids ++ rk.kids, rk.res, rk.next⟩

/-- all threads of a run -/
def Out.threads (r : Out ε) : List (Trace ε) := r.main :: r.kids

/-! ### trace monitors and the all-paths analysis -/

/-- a deterministic trace monitor: `step s e r = none` rejects the event; a goroutine's
trace is monitored from `init` -/
structure Mon (ε σ : Type) where
  step : σ → ε → Bool → Option σ
  init : σ

variable {σ : Type}

def Mon.exec (M : Mon ε σ) : Trace ε → σ → Option σ
  | [], s => some s
  | (e, r) :: t, s =>
    match M.step s e r with
    | none => none
    | some s' => M.exec t s'

def Mon.kidsOK (M : Mon ε σ) (kids : List (Trace ε)) : Bool :=
  kids.all (fun t => (M.exec t M.init).isSome)

theorem Mon.exec_append (M : Mon ε σ) (t1 t2 : Trace ε) (s : σ) :
    M.exec (t1 ++ t2) s = (M.exec t1 s).bind (M.exec t2) := by
  induction t1 generalizing s with
  | nil => simp [Mon.exec]
  | cons x t ih =>
    obtain ⟨e, r⟩ := x
    simp only [List.cons_append, Mon.exec]
    cases M.step s e r with
    | none => simp
    | some s' => simpa using ih s'

def union (l1 l2 : List Nat) : List Nat := l1.foldr List.insert l2

theorem mem_union (l1 l2 : List Nat) (x : Nat) :
    x ∈ union l1 l2 ↔ x ∈ l1 ∨ x ∈ l2 := by
  induction l1 with
  | nil => simp [union]
  | cons a l ih =>
    simp only [union, List.foldr_cons, List.mem_insert_iff, List.mem_cons] at ih ⊢
    rw [ih]
    constructor
    · rintro (h | h | h)
      · exact Or.inl (Or.inl h)
      · exact Or.inl (Or.inr h)
      · exact Or.inr h
    · rintro ((h | h) | h)
      · exact Or.inl h
      · exact Or.inr (Or.inl h)
      · exact Or.inr (Or.inr h)

/-- combine the summaries of the continuations of a call, one per distinct outcome -/
def joinAll (g : Nat → Option (List Nat)) (l : List Nat) : Option (List Nat) :=
  l.foldr (fun x acc => match acc, g x with
    | some a, some b => some (union b a)
    | _, _ => none) (some [])

theorem joinAll_mem (g : Nat → Option (List Nat)) (l : List Nat) (r : List Nat)
    (h : joinAll g l = some r) (x : Nat) (hx : x ∈ l) :
    ∃ b, g x = some b ∧ ∀ y ∈ b, y ∈ r := by
  induction l generalizing r with
  | nil => cases hx
  | cons a l ih =>
    simp only [joinAll, List.foldr_cons] at h
    cases hacc : List.foldr (fun x acc => match acc, g x with
      | some a, some b => some (union b a)
      | _, _ => none) (some []) l with
    | none => simp [hacc] at h
    | some acc =>
      cases hga : g a with
      | none => simp [hacc, hga] at h
      | some b =>
        simp only [hacc, hga, Option.some.injEq] at h
        subst h
        simp only [List.mem_cons] at hx
        rcases hx with rfl | hx
        · exact ⟨b, hga, fun y hy => (mem_union _ _ _).2 (Or.inl hy)⟩
        · obtain ⟨b', hb', hsub⟩ := ih acc hacc hx
          exact ⟨b', hb', fun y hy => (mem_union _ _ _).2 (Or.inr (hsub y hy))⟩

/-- All-paths analysis: run the monitor over every path of the program. `none`: some path
is rejected (in the thread or in a goroutine it starts). `some l`: no path is rejected and
`l` lists the numbers (`pcode`) of the distinct (result, monitor state) pairs with which the
thread can finish. A called sub-program is summarised once per call and entry state, and its
continuation is explored once per distinct outcome. -/
def analyze (M : Mon ε σ) [Code σ] : Prog ε → σ → Option (List Nat)
  | .done r, s => some [pcode r s]
  | .eff e k, s =>
      match M.step s e true, M.step s e false with
      | some s1, some s0 =>
        match Code.force s1 (analyze M (k true)), Code.force s0 (analyze M (k false)) with
        | some l1, some l0 => some (union l1 l0)
        | _, _ => none
      | _, _ => none
  | .spawn c k, s =>
      match analyze M c M.init with
      | some _ => analyze M k s
      | none => none
  | .sub p k, s =>
      match analyze M p s with
      | none => none
      | some l => joinAll (fun x => Code.force (psnd x) (analyze M (k (x / 256)))) l

/-- Soundness of the analysis: for every oracle the run is accepted by the monitor (thread
and goroutines) and finishes with one of the listed (result, state) pairs. -/
theorem analyze_sound (M : Mon ε σ) [Code σ] (p : Prog ε) :
    ∀ (s : σ) (l : List Nat), analyze M p s = some l → ∀ (o : Nat → Bool) (n : Nat),
      ∃ s', M.exec (run p o n).main s = some s' ∧ pcode (run p o n).res s' ∈ l ∧
        M.kidsOK (run p o n).kids = true := by
  induction p with
  | done r =>
    intro s l h o n
    simp only [analyze, Option.some.injEq] at h
    subst h
    exact ⟨s, by simp [run, Mon.exec], by simp [run], by simp [run, Mon.kidsOK]⟩
  | eff e k ih =>
    intro s l h o n
    simp only [analyze, Code.force_eq] at h
    cases h1 : M.step s e true with
    | none => simp [h1] at h
    | some s1 =>
      cases h0 : M.step s e false with
      | none => simp [h1, h0] at h
      | some s0 =>
        simp only [h1, h0] at h
        cases ha1 : analyze M (k true) s1 with
        | none => simp [ha1] at h
        | some l1 =>
          cases ha0 : analyze M (k false) s0 with
          | none => simp [ha1, ha0] at h
          | some l0 =>
            simp only [ha1, ha0, Option.some.injEq] at h
            subst h
            cases hb : o n with
            | true =>
              obtain ⟨s', hs, hm, hk⟩ := ih true s1 l1 ha1 o (n + 1)
              refine ⟨s', ?_, ?_, ?_⟩
              · simp [run, hb, Mon.exec, h1, hs]
              · simp only [run, hb]; exact (mem_union _ _ _).2 (Or.inl hm)
              · simpa [run, hb] using hk
            | false =>
              obtain ⟨s', hs, hm, hk⟩ := ih false s0 l0 ha0 o (n + 1)
              refine ⟨s', ?_, ?_, ?_⟩
              · simp [run, hb, Mon.exec, h0, hs]
              · simp only [run, hb]; exact (mem_union _ _ _).2 (Or.inr hm)
              · simpa [run, hb] using hk
  | spawn c k ihc ihk =>
    intro s l h o n
    simp only [analyze] at h
    cases hc : analyze M c M.init with
    | none => simp [hc] at h
    | some lc =>
      simp only [hc] at h
      obtain ⟨sc, hsc, _, hkc⟩ := ihc M.init lc hc o n
      obtain ⟨s', hs, hm, hk⟩ := ihk s l h o (run c o n).next
      refine ⟨s', by simpa [run] using hs, by simpa [run] using hm, ?_⟩
      simp only [run, Mon.kidsOK, List.all_cons, List.all_append, Bool.and_eq_true]
      simp only [Mon.kidsOK] at hkc hk
      exact ⟨by simp [hsc], hkc, hk⟩
  | sub p k ihp ihk =>
    intro s l h o n
    simp only [analyze, Code.force_eq] at h
    cases hp : analyze M p s with
    | none => simp [hp] at h
    | some lp =>
      simp only [hp] at h
      obtain ⟨sp, hsp, hmp, hkp⟩ := ihp s lp hp o n
      obtain ⟨b, hb, hsub⟩ := joinAll_mem _ lp l h _ hmp
      rw [pfst_pcode, psnd_pcode] at hb
      obtain ⟨s', hs, hm, hk⟩ := ihk (run p o n).res sp b hb o (run p o n).next
      refine ⟨s', ?_, ?_, ?_⟩
      · simp [run, Mon.exec_append, hsp, hs]
      · simpa [run] using hsub _ hm
      · simp only [run, Mon.kidsOK, List.all_append, Bool.and_eq_true]
        exact ⟨hkp, hk⟩

/-- the monitor accepts the whole run -/
def Mon.okOut (M : Mon ε σ) (r : Out ε) (s : σ) : Bool :=
  (M.exec r.main s).isSome && M.kidsOK r.kids

/-- the all-paths check as a Boolean -/
def allPaths (M : Mon ε σ) [Code σ] (p : Prog ε) (s : σ) : Bool :=
  (analyze M p s).isSome

theorem allPaths_sound (M : Mon ε σ) [Code σ] (p : Prog ε) (s : σ)
    (h : allPaths M p s = true) (o : Nat → Bool) (n : Nat) : M.okOut (run p o n) s = true := by
  unfold allPaths at h
  cases ha : analyze M p s with
  | none => simp [ha] at h
  | some l =>
    obtain ⟨s', hs, _, hk⟩ := analyze_sound M p s l ha o n
    simp [Mon.okOut, hs, hk]

/-! ### gate domination -/

/-- classification of events for the gating property: `verdict e r = some v` says the
event (effect `e` answered `r`) is a policy decision with verdict `v`; `guarded e` says
the effect needs a permit. -/
structure Gating (ε : Type) where
  verdict : ε → Bool → Option Bool
  guarded : ε → Bool

/-- the flag after an event: the most recent verdict of this thread -/
def Gating.next (G : Gating ε) (e : ε) (r : Bool) (g : Bool) : Bool :=
  match G.verdict e r with
  | some v => v
  | none => g

/-- the semantic property on one thread's trace: every guarded effect is performed while
the most recent policy verdict of the same thread is *permit* -/
def traceGated (G : Gating ε) : Trace ε → Bool → Bool
  | [], _ => true
  | (e, r) :: t, g => (!G.guarded e || g) && traceGated G t (G.next e r g)

/-- … for the thread and for every goroutine it started (a goroutine starts without a permit) -/
def outGated (G : Gating ε) (r : Out ε) (g : Bool) : Bool :=
  traceGated G r.main g && r.kids.all (fun t => traceGated G t false)

def gateMon (G : Gating ε) : Mon ε Bool where
  step := fun g e r => if G.guarded e && !g then none else some (G.next e r g)
  init := false

theorem gateMon_step (G : Gating ε) (g : Bool) (e : ε) (r : Bool) :
    (gateMon G).step g e r = if G.guarded e && !g then none else some (G.next e r g) := rfl

theorem gateMon_exec (G : Gating ε) (t : Trace ε) (g : Bool) :
    ((gateMon G).exec t g).isSome = traceGated G t g := by
  induction t generalizing g with
  | nil => simp [Mon.exec, traceGated]
  | cons x t ih =>
    obtain ⟨e, r⟩ := x
    simp only [Mon.exec, traceGated, gateMon_step]
    cases hg : G.guarded e <;> cases g <;> simp [ih]

/-- the all-paths checker for gating -/
def gated (G : Gating ε) (p : Prog ε) (g : Bool) : Bool :=
  allPaths (gateMon G) p g

theorem gated_sound (G : Gating ε) (p : Prog ε) (g : Bool)
    (h : gated G p g = true) (o : Nat → Bool) (n : Nat) :
    outGated G (run p o n) g = true := by
  have := allPaths_sound (gateMon G) p g h o n
  simp only [Mon.okOut, Mon.kidsOK, Bool.and_eq_true] at this
  simp only [outGated, Bool.and_eq_true]
  refine ⟨by rw [← gateMon_exec]; exact this.1, ?_⟩
  rw [List.all_eq_true] at this ⊢
  intro t ht
  rw [← gateMon_exec]
  exact this.2 t ht

/-- a permit can only help -/
theorem traceGated_mono (G : Gating ε) (t : Trace ε) (h : traceGated G t false = true) :
    traceGated G t true = true := by
  cases t with
  | nil => rfl
  | cons x t =>
    obtain ⟨e, r⟩ := x
    simp only [traceGated, Bool.and_eq_true, Bool.or_eq_true, Bool.not_eq_true'] at h ⊢
    refine ⟨Or.inr trivial, ?_⟩
    have h2 := h.2
    unfold Gating.next at h2 ⊢
    cases hv : G.verdict e r with
    | some v => simpa [hv] using h2
    | none =>
      simp only [hv] at h2 ⊢
      exact traceGated_mono G t h2

/-- the flag after a trace -/
def flagAfter (G : Gating ε) : Trace ε → Bool → Bool
  | [], g => g
  | (e, r) :: t, g => flagAfter G t (G.next e r g)

theorem traceGated_append (G : Gating ε) (t1 t2 : Trace ε) (g : Bool) :
    traceGated G (t1 ++ t2) g = (traceGated G t1 g && traceGated G t2 (flagAfter G t1 g)) := by
  induction t1 generalizing g with
  | nil => simp [traceGated, flagAfter]
  | cons x t ih =>
    obtain ⟨e, r⟩ := x
    simp only [List.cons_append, traceGated, flagAfter, ih, Bool.and_assoc]

theorem traceGated_any (G : Gating ε) (t : Trace ε) (h : traceGated G t false = true) (g : Bool) :
    traceGated G t g = true := by
  cases g
  · exact h
  · exact traceGated_mono G t h

/-- Splicing: if an event `x` of a gated trace resets the flag (verdict *deny*) and stands
for a segment `seg` that is itself gated from scratch, the trace with the segment put in
place of the event is gated. (Used for re-entries of the handshake.) -/
theorem traceGated_splice (G : Gating ε) (t1 t2 seg : Trace ε) (x : ε × Bool) (g : Bool)
    (hx : G.verdict x.1 x.2 = some false)
    (h : traceGated G (t1 ++ x :: t2) g = true) (hs : traceGated G seg false = true) :
    traceGated G (t1 ++ seg ++ t2) g = true := by
  obtain ⟨e, r⟩ := x
  rw [traceGated_append] at h
  simp only [traceGated, Bool.and_eq_true] at h
  have h2 : traceGated G t2 false = true := by
    have := h.2.2
    unfold Gating.next at this
    simp only [hx] at this
    exact this
  rw [List.append_assoc, traceGated_append, traceGated_append]
  simp only [Bool.and_eq_true]
  exact ⟨h.1, traceGated_any G seg hs _, traceGated_any G t2 h2 _⟩

/-- the declarative reading of `traceGated … false`: whenever the trace splits as
`pre ++ (e, r) :: post` with `e` guarded, `pre` contains a verdict *permit* after which
`pre` contains no further verdict. -/
def PermitBefore (G : Gating ε) (pre : Trace ε) : Prop :=
  ∃ a x b, pre = a ++ x :: b ∧ G.verdict x.1 x.2 = some true ∧ ∀ y ∈ b, G.verdict y.1 y.2 = none

theorem traceGated_spec_aux (G : Gating ε) (t : Trace ε) (g : Bool) (h : traceGated G t g = true)
    (pre post : Trace ε) (e : ε) (r : Bool) (hs : t = pre ++ (e, r) :: post) (hg : G.guarded e = true) :
    PermitBefore G pre ∨ (g = true ∧ ∀ y ∈ pre, G.verdict y.1 y.2 = none) := by
  induction pre generalizing t g with
  | nil =>
    subst hs
    simp only [List.nil_append, traceGated, hg, Bool.not_true, Bool.false_or, Bool.and_eq_true] at h
    exact Or.inr ⟨h.1, by simp⟩
  | cons x pre ih =>
    subst hs
    obtain ⟨e0, r0⟩ := x
    simp only [List.cons_append, traceGated, Bool.and_eq_true] at h
    have := ih _ _ h.2 rfl
    rcases this with ⟨a, y, b, hab, hy, hb⟩ | ⟨hn, hall⟩
    · exact Or.inl ⟨(e0, r0) :: a, y, b, by simp [hab], hy, hb⟩
    · unfold Gating.next at hn
      cases hv : G.verdict e0 r0 with
      | some v =>
        simp only [hv] at hn
        subst hn
        exact Or.inl ⟨[], (e0, r0), pre, by simp, hv, hall⟩
      | none =>
        simp only [hv] at hn
        refine Or.inr ⟨hn, ?_⟩
        intro y hy
        simp only [List.mem_cons] at hy
        rcases hy with rfl | hy
        · exact hv
        · exact hall y hy

theorem traceGated_spec (G : Gating ε) (t : Trace ε) (h : traceGated G t false = true)
    (pre post : Trace ε) (e : ε) (r : Bool) (hs : t = pre ++ (e, r) :: post) (hg : G.guarded e = true) :
    PermitBefore G pre := by
  rcases traceGated_spec_aux G t false h pre post e r hs hg with h | ⟨h, _⟩
  · exact h
  · cases h

/-! ### effects that never happen -/

def traceNever (bad : ε → Bool) (t : Trace ε) : Bool := t.all (fun x => !bad x.1)

def outNever (bad : ε → Bool) (r : Out ε) : Bool :=
  r.threads.all (traceNever bad)

def neverMon (bad : ε → Bool) : Mon ε Unit where
  step := fun _ e _ => if bad e then none else some ()
  init := ()

theorem neverMon_step (bad : ε → Bool) (u : Unit) (e : ε) (r : Bool) :
    (neverMon bad).step u e r = if bad e then none else some () := rfl

theorem neverMon_exec (bad : ε → Bool) (t : Trace ε) (u : Unit) :
    ((neverMon bad).exec t u).isSome = traceNever bad t := by
  induction t with
  | nil => simp [Mon.exec, traceNever]
  | cons x t ih =>
    obtain ⟨e, r⟩ := x
    simp only [Mon.exec, neverMon_step, traceNever, List.all_cons] at ih ⊢
    cases hb : bad e <;> simp [ih]

/-- all-paths checker: no effect satisfying `bad` anywhere in the program, goroutines included -/
def never (bad : ε → Bool) (p : Prog ε) : Bool :=
  allPaths (neverMon bad) p ()

theorem never_sound (bad : ε → Bool) (p : Prog ε) (h : never bad p = true)
    (o : Nat → Bool) (n : Nat) : outNever bad (run p o n) = true := by
  have := allPaths_sound (neverMon bad) p () h o n
  simp only [Mon.okOut, Mon.kidsOK, Bool.and_eq_true] at this
  simp only [outNever, Out.threads, List.all_cons, Bool.and_eq_true]
  refine ⟨by rw [← neverMon_exec bad _ ()]; exact this.1, ?_⟩
  rw [List.all_eq_true] at this ⊢
  intro t ht
  rw [← neverMon_exec bad _ ()]
  exact this.2 t ht

theorem outNever_mem (bad : ε → Bool) (r : Out ε) (h : outNever bad r = true)
    (t : Trace ε) (ht : t ∈ r.threads) (x : ε × Bool) (hx : x ∈ t) : bad x.1 = false := by
  simp only [outNever, List.all_eq_true] at h
  have := h t ht
  simp only [traceNever, List.all_eq_true, Bool.not_eq_true'] at this
  exact this x hx

end CM.Prog
