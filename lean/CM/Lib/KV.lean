/-
The reference key–value tree of the `Storage` contract (storage.go, type comment of
`Storage`; core Lean only).

* A key is a list of path components (`"a/b/c"` = `[a, b, c]`); stored keys are non-empty.
* "A *prefix* of a key is defined on a component basis, e.g. `a` is a prefix of `a/b` but
  not of `ab/c`": prefix = `List` prefix `<+:` on components.
* A *file* is a key with a value; a *directory* is a key without a value that is a prefix
  of a stored key.  The *nodes* of the tree are the stored keys and their prefixes.
* `load`, `stat`, `list` of a key that is no node report "does not exist" (`none`);
  `delete p` removes exactly the keys that have `p` as a prefix; a non-recursive `list p`
  returns the direct children of `p`, a recursive one all descendants (files and
  directories, which is what `FileStorage.List` enumerates).

The store is an association list; all laws are stated with `load` / membership, so they
do not depend on the order or on shadowed duplicates.  The component type `κ` and the
value type `ν` are parameters (the C10 driver uses `Nat` for both).
-/
namespace CM.KV

abbrev Key (κ : Type) := List κ
abbrev Store (κ ν : Type) := List (Key κ × ν)

variable {κ : Type} [DecidableEq κ] {ν : Type}

/-- the value at `k` (first binding wins) -/
def load : Store κ ν → Key κ → Option ν
  | [], _ => none
  | (k', v) :: r, k => if k' = k then some v else load r k

/-- create or overwrite `k` -/
def store (s : Store κ ν) (k : Key κ) (v : ν) : Store κ ν :=
  (k, v) :: s.filter (fun e => decide (e.1 ≠ k))

/-- remove every key that has `p` as a prefix (by whole components) -/
def delete (s : Store κ ν) (p : Key κ) : Store κ ν :=
  s.filter (fun e => !p.isPrefixOf e.1)

/-- `k` is a node: a stored key or a (component-wise) prefix of one -/
def «exists» (s : Store κ ν) (k : Key κ) : Bool :=
  s.any (fun e => k.isPrefixOf e.1)

/-- the prefixes of `k` that are strictly longer than `n` components -/
def longerPrefixes (n : Nat) (k : Key κ) : List (Key κ) :=
  (List.range (k.length - n)).map (fun i => k.take (n + i + 1))

/-- all nodes strictly below `p` (with repetitions; compare as sets) -/
def descendants (s : Store κ ν) (p : Key κ) : List (Key κ) :=
  s.flatMap (fun e => if p.isPrefixOf e.1 then longerPrefixes p.length e.1 else [])

/-- the nodes directly below `p` -/
def children (s : Store κ ν) (p : Key κ) : List (Key κ) :=
  (descendants s p).filter (fun k => k.length == p.length + 1)

/-- `list p recursive`; `none` = "does not exist". The root `[]` always exists. -/
def list (s : Store κ ν) (p : Key κ) (recursive : Bool) : Option (List (Key κ)) :=
  if p ≠ [] ∧ «exists» s p = false then none
  else some (if recursive then descendants s p else children s p)

/-- what `Stat` reports: terminal (a file) with its size, or a directory -/
inductive Info where
  | file (size : Nat)
  | dir
  deriving DecidableEq, Repr

def stat (sz : ν → Nat) (s : Store κ ν) (k : Key κ) : Option Info :=
  match load s k with
  | some v => some (.file (sz v))
  | none => if «exists» s k then some .dir else none

/-- no stored key is a proper prefix of another (files are not directories) -/
def PrefixFree (s : Store κ ν) : Prop :=
  ∀ a ∈ s, ∀ b ∈ s, a.1 <+: b.1 → a.1 = b.1

/-! ## laws -/

theorem load_isSome_iff (s : Store κ ν) (k : Key κ) :
    (∃ v, load s k = some v) ↔ ∃ v, (k, v) ∈ s := by
  induction s with
  | nil => simp [load]
  | cons e r ih =>
    obtain ⟨k', v'⟩ := e
    by_cases h : k' = k
    · subst h
      simp [load]
    · simp only [load, if_neg h, ih, List.mem_cons, Prod.mk.injEq]
      constructor
      · rintro ⟨v, hv⟩; exact ⟨v, Or.inr hv⟩
      · rintro ⟨v, hv | hv⟩
        · exact absurd hv.1.symm h
        · exact ⟨v, hv⟩

theorem load_mem {s : Store κ ν} {k : Key κ} {v : ν} (h : load s k = some v) : (k, v) ∈ s := by
  induction s with
  | nil => simp [load] at h
  | cons e r ih =>
    obtain ⟨k', v'⟩ := e
    by_cases hk : k' = k
    · subst hk
      simp [load] at h
      subst h
      exact List.mem_cons_self
    · simp only [load, if_neg hk] at h
      exact List.mem_cons_of_mem _ (ih h)

theorem load_filter (s : Store κ ν) (f : Key κ → Bool) (k : Key κ) :
    load (s.filter (fun e => f e.1)) k = if f k then load s k else none := by
  induction s with
  | nil => simp [load]
  | cons e r ih =>
    obtain ⟨k', v'⟩ := e
    by_cases hk : k' = k
    · subst hk
      cases hf : f k' <;> simp [List.filter, hf, load, ih]
    · cases hf : f k' <;> simp [List.filter, hf, load, hk, ih]

/-- **load_store**: a stored value is read back; other keys are unaffected -/
theorem load_store (s : Store κ ν) (k k' : Key κ) (v : ν) :
    load (store s k v) k' = if k' = k then some v else load s k' := by
  unfold store
  by_cases h : k' = k
  · subst h; simp [load]
  · have h' : ¬ k = k' := fun e => h e.symm
    have := load_filter s (fun x => decide (x ≠ k)) k'
    simp only [load, if_neg h', if_neg h]
    rw [this]; simp [h]

/-- **delete_prefix_exact**: `delete p` removes exactly the keys having the prefix `p`
(by whole components) and leaves every other key with its value -/
theorem delete_prefix_exact (s : Store κ ν) (p k : Key κ) :
    load (delete s p) k = if p <+: k then none else load s k := by
  unfold delete
  rw [load_filter s (fun x => !p.isPrefixOf x) k]
  by_cases h : p <+: k
  · simp [h, List.isPrefixOf_iff_prefix.mpr h]
  · have : p.isPrefixOf k = false := by
      cases hh : p.isPrefixOf k
      · rfl
      · exact absurd (List.isPrefixOf_iff_prefix.mp hh) h
    simp [h, this]

/-- **exists_iff**: a key exists iff it is a prefix (by whole components) of a key that
has a value — i.e. it is a file or a directory -/
theorem exists_iff (s : Store κ ν) (k : Key κ) :
    «exists» s k = true ↔ ∃ k' v, load s k' = some v ∧ k <+: k' := by
  unfold «exists»
  rw [List.any_eq_true]
  constructor
  · rintro ⟨⟨k', v'⟩, hm, hp⟩
    obtain ⟨v, hv⟩ := (load_isSome_iff s k').mpr ⟨v', hm⟩
    exact ⟨k', v, hv, List.isPrefixOf_iff_prefix.mp hp⟩
  · rintro ⟨k', v, hl, hp⟩
    exact ⟨(k', v), load_mem hl, List.isPrefixOf_iff_prefix.mpr hp⟩

theorem exists_eq_false_iff (s : Store κ ν) (k : Key κ) :
    «exists» s k = false ↔ ∀ k' v, load s k' = some v → ¬ k <+: k' := by
  constructor
  · intro h k' v hl hp
    have := (exists_iff s k).mpr ⟨k', v, hl, hp⟩
    rw [h] at this; cases this
  · intro h
    cases he : «exists» s k
    · rfl
    · obtain ⟨k', v, hl, hp⟩ := (exists_iff s k).mp he
      exact absurd hp (h k' v hl)

omit [DecidableEq κ] in
theorem mem_longerPrefixes (n : Nat) (k x : Key κ) :
    x ∈ longerPrefixes n k ↔ x <+: k ∧ n < x.length := by
  unfold longerPrefixes
  simp only [List.mem_map, List.mem_range]
  constructor
  · rintro ⟨i, hi, rfl⟩
    refine ⟨List.take_prefix _ _, ?_⟩
    rw [List.length_take]; omega
  · rintro ⟨hp, hn⟩
    have hle := hp.length_le
    refine ⟨x.length - n - 1, by omega, ?_⟩
    have : n + (x.length - n - 1) + 1 = x.length := by omega
    rw [this]
    exact (List.prefix_iff_eq_take.mp hp).symm

theorem mem_descendants (s : Store κ ν) (p x : Key κ) :
    x ∈ descendants s p ↔ ∃ e ∈ s, p <+: e.1 ∧ x <+: e.1 ∧ p.length < x.length := by
  unfold descendants
  simp only [List.mem_flatMap]
  constructor
  · rintro ⟨e, he, hx⟩
    by_cases hp : p.isPrefixOf e.1 = true
    · rw [if_pos hp, mem_longerPrefixes] at hx
      exact ⟨e, he, List.isPrefixOf_iff_prefix.mp hp, hx.1, hx.2⟩
    · rw [if_neg hp] at hx; cases hx
  · rintro ⟨e, he, hp, hx, hl⟩
    refine ⟨e, he, ?_⟩
    rw [if_pos (List.isPrefixOf_iff_prefix.mpr hp), mem_longerPrefixes]
    exact ⟨hx, hl⟩

omit [DecidableEq κ] in
/-- two prefixes of one list are comparable; the shorter is a prefix of the longer -/
theorem prefix_of_prefix_length_le' {a b c : Key κ} (ha : a <+: c) (hb : b <+: c)
    (h : a.length ≤ b.length) : a <+: b :=
  List.prefix_of_prefix_length_le ha hb h

/-- **list_recursive**: a recursive listing of `p` is exactly the set of nodes strictly
below `p`: the keys `x ≠ p` that have `p` as a component-wise prefix and exist -/
theorem list_recursive (s : Store κ ν) (p x : Key κ) :
    x ∈ descendants s p ↔ (p <+: x ∧ x ≠ p ∧ «exists» s x = true) := by
  rw [mem_descendants]
  constructor
  · rintro ⟨e, he, hp, hx, hl⟩
    refine ⟨prefix_of_prefix_length_le' hp hx (Nat.le_of_lt hl), ?_, ?_⟩
    · intro e'; subst e'; omega
    · unfold «exists»
      exact List.any_eq_true.mpr ⟨e, he, List.isPrefixOf_iff_prefix.mpr hx⟩
  · rintro ⟨hpx, hne, hex⟩
    unfold «exists» at hex
    obtain ⟨e, he, hx⟩ := List.any_eq_true.mp hex
    have hx' := List.isPrefixOf_iff_prefix.mp hx
    refine ⟨e, he, hpx.trans hx', hx', ?_⟩
    have hle := hpx.length_le
    rcases Nat.lt_or_ge p.length x.length with h | h
    · exact h
    · exact absurd (List.IsPrefix.eq_of_length_le hpx h).symm hne

/-- **list_nonrecursive**: a non-recursive listing of `p` is exactly the set of direct
children of `p`: the existing keys `p ++ [c]` -/
theorem list_nonrecursive (s : Store κ ν) (p x : Key κ) :
    x ∈ children s p ↔ ((∃ c, x = p ++ [c]) ∧ «exists» s x = true) := by
  unfold children
  rw [List.mem_filter, list_recursive]
  constructor
  · rintro ⟨⟨hpx, _, hex⟩, hl⟩
    refine ⟨?_, hex⟩
    obtain ⟨t, rfl⟩ := hpx
    have hl' : (p ++ t).length = p.length + 1 := by simpa using hl
    rw [List.length_append] at hl'
    match t, hl' with
    | [c], _ => exact ⟨c, rfl⟩
    | [], h => simp at h
    | _ :: _ :: _, h => simp at h
  · rintro ⟨⟨c, rfl⟩, hex⟩
    refine ⟨⟨List.prefix_append _ _, ?_, hex⟩, by simp⟩
    intro h
    have := congrArg List.length h
    simp at this

theorem list_some (s : Store κ ν) (p : Key κ) (r : Bool) (h : p = [] ∨ «exists» s p = true) :
    list s p r = some (if r then descendants s p else children s p) := by
  unfold list
  rcases h with h | h
  · simp [h]
  · simp [h]

/-- **missing ⇒ notexist**: a key that is no node has no value, no `stat`, no listing, and
deleting it changes nothing -/
theorem missing_notexist (sz : ν → Nat) (s : Store κ ν) (k : Key κ) (h : «exists» s k = false) :
    load s k = none ∧ stat sz s k = none ∧ (k ≠ [] → ∀ r, list s k r = none) ∧
    (∀ k', load (delete s k) k' = load s k') := by
  have hn := (exists_eq_false_iff s k).mp h
  have hl : load s k = none := by
    cases hv : load s k with
    | none => rfl
    | some v => exact absurd (List.prefix_refl k) (hn k v hv)
  refine ⟨hl, ?_, ?_, ?_⟩
  · simp [stat, hl, h]
  · intro hk r
    simp [list, hk, h]
  · intro k'
    rw [delete_prefix_exact]
    split
    · rename_i hp
      cases hv : load s k' with
      | none => rfl
      | some v => exact absurd hp (hn k' v hv)
    · rfl

/-- a file is a node -/
theorem exists_of_load {s : Store κ ν} {k : Key κ} {v : ν} (h : load s k = some v) :
    «exists» s k = true :=
  (exists_iff s k).mpr ⟨k, v, h, List.prefix_refl k⟩

/-- after `delete p` nothing below `p` exists, and what exists elsewhere still exists -/
theorem exists_delete (s : Store κ ν) (p k : Key κ) :
    «exists» (delete s p) k = true ↔ ∃ k' v, load s k' = some v ∧ k <+: k' ∧ ¬ p <+: k' := by
  rw [exists_iff]
  constructor
  · rintro ⟨k', v, hl, hp⟩
    rw [delete_prefix_exact] at hl
    split at hl
    · cases hl
    · rename_i hnp
      exact ⟨k', v, hl, hp, hnp⟩
  · rintro ⟨k', v, hl, hp, hnp⟩
    refine ⟨k', v, ?_, hp⟩
    rw [delete_prefix_exact, if_neg hnp]; exact hl

theorem not_exists_below_deleted (s : Store κ ν) (p k : Key κ) (h : p <+: k) :
    «exists» (delete s p) k = false := by
  rw [exists_eq_false_iff]
  intro k' v hl hk
  rw [delete_prefix_exact] at hl
  rw [if_pos (h.trans hk)] at hl
  cases hl

/-- `store` and `delete` keep the stored set prefix-free when the new key is compatible -/
theorem prefixFree_delete {s : Store κ ν} (h : PrefixFree s) (p : Key κ) : PrefixFree (delete s p) := by
  intro a ha b hb
  exact h a (List.mem_filter.mp ha).1 b (List.mem_filter.mp hb).1

theorem prefixFree_store {s : Store κ ν} (h : PrefixFree s) (k : Key κ) (v : ν)
    (hk : ∀ e ∈ s, (e.1 <+: k ∨ k <+: e.1) → e.1 = k) : PrefixFree (store s k v) := by
  intro a ha b hb hab
  unfold store at ha hb
  rcases List.mem_cons.mp ha with rfl | ha
  · rcases List.mem_cons.mp hb with rfl | hb
    · rfl
    · exact (hk b (List.mem_filter.mp hb).1 (Or.inr hab)).symm
  · rcases List.mem_cons.mp hb with rfl | hb
    · exact hk a (List.mem_filter.mp ha).1 (Or.inl hab)
    · exact h a (List.mem_filter.mp ha).1 b (List.mem_filter.mp hb).1 hab

/-! ## the documented example: `a` is a prefix of `a/b` but not of `ab/c` -/

example : (load (delete (store (store ([] : Store String Nat) ["a", "b"] 1) ["ab", "c"] 2) ["a"]) ["ab", "c"],
           load (delete (store (store ([] : Store String Nat) ["a", "b"] 1) ["ab", "c"] 2) ["a"]) ["a", "b"])
          = (some 2, none) := by decide

example : list (store (store ([] : Store String Nat) ["a", "b", "c"] 1) ["a", "d"] 2) ["a"] false
          = some [["a", "d"], ["a", "b"]] := by decide

example : list (store (store ([] : Store String Nat) ["a", "b", "c"] 1) ["a", "d"] 2) ["a"] true
          = some [["a", "d"], ["a", "b"], ["a", "b", "c"]] := by decide

example : list (store ([] : Store String Nat) ["a", "b"] 1) ["x"] true = none := by decide

end CM.KV
