import CM.Lib.Skel
/-
Structural predicates over action skeletons (CM.Skel.Sk) used by the handshake properties
(C02: gate domination; C13: single-flight discipline). Stage one (DESIGN 2.1-L4): the
predicates are hand-written, decidable, and say exactly what the models rely on; they do
not compare skeletons with recorded ones.

Every walker returns `Option (Option σ)`:
  `none`            the fact does not hold on some path,
  `some none`       every path through the block leaves the function,
  `some (some s)`   the block can complete normally, in state `s`.
-/
namespace CM.SkelHS
open CM.Skel

/-! string tests on character lists (kernel-reducible, so that the tie theorems are `decide`) -/
def sw (p n : String) : Bool := p.toList.isPrefixOf n.toList
def ew (p n : String) : Bool := p.toList.isSuffixOf n.toList
def isCat (n a b : String) : Bool := n.toList == a.toList ++ b.toList
def infixOfL : List Char → List Char → Bool
  | p, [] => p.isEmpty
  | p, c :: rest => p.isPrefixOf (c :: rest) || infixOfL p rest
def hasInfix (p n : String) : Bool := infixOfL p.toList n.toList

/-- does the block contain a `return` (of the enclosing function literal)? -/
def hasRet : Sk → Bool
  | .ret => true
  | .seq a b => hasRet a || hasRet b
  | .br _ a b => hasRet a || hasRet b
  | .loop a => hasRet a
  | .acq f => hasRet f
  | _ => false

/-- does the block close a channel? -/
def closes : Sk → Bool
  | .act n => sw "close:" n
  | .seq a b => closes a || closes b
  | .br _ a b => closes a || closes b
  | .loop a => closes a
  | .fn a => closes a
  | _ => false

/-! ### gate domination (C02)

State: 0 = no permit, 1 = the gate was just called and its result not yet tested,
2 = the gate's error branch has been left behind. A critical action needs state 2. -/

def joinG (a b : Nat) : Nat := if a = 2 ∧ b = 2 then 2 else 0

def gateDom (gate : String) (crit : List String) : Sk → Nat → Option (Option Nat)
  | .act n, s =>
      if crit.contains n then (if s = 2 then some (some 2) else none)
      else if n = gate then some (some 1)
      else some (some (if s = 1 then 0 else s))
  | .ret, _ => some none
  | .pnc, _ => some none
  | .skip, s => some (some s)
  | .seq a b, s =>
      match gateDom gate crit a s with
      | none => none
      | some none => some none
      | some (some s') => gateDom gate crit b s'
  | .br c a b, s =>
      let sa := if s = 1 then 0 else s
      let sb := if s = 1 then (if c = "err != nil" then 2 else 0) else s
      match gateDom gate crit a sa, gateDom gate crit b sb with
      | none, _ => none
      | _, none => none
      | some none, r => r
      | r, some none => r
      | some (some x), some (some y) => some (some (joinG x y))
  | .loop a, s =>
      match gateDom gate crit a (if s = 1 then 0 else s) with
      | none => none
      | some none => some (some (if s = 1 then 0 else s))
      | some (some x) => some (some (joinG (if s = 1 then 0 else s) x))
  | .dfr a, s => match gateDom gate crit a 0 with
      | none => none
      | _ => some (some s)
  | .spawn a, s => match gateDom gate crit a 0 with
      | none => none
      | _ => some (some s)
  | .fn a, s => match gateDom gate crit a s with
      | none => none
      | some none => some (some 0)
      | some (some x) => some (some (if hasRet a then 0 else x))
  | .acq f, s => match gateDom gate crit f 0 with
      | none => none
      | _ => some (some (if s = 1 then 0 else s))

/-- every path to a critical action passes the gate and leaves its error branch -/
def gate_before_issuing_action (gate : String) (crit : List String) (sk : Sk) : Bool :=
  (gateDom gate crit sk 0).isSome

/-- the critical actions do occur (the fact is not vacuous) -/
def mentions (names : List String) (sk : Sk) : Bool :=
  names.all (fun n => (acts sk).contains n)

/-! ### single-flight discipline (C13) -/

/-- state of the mutex walker: is `mu` held; inside the current critical section: was the
map read, was a channel closed, was the map entry deleted -/
structure CS where
  held : Bool
  read : Bool
  closed : Bool
  deleted : Bool
  deriving DecidableEq, Repr

def CS.idle : CS := ⟨false, false, false, false⟩

def joinCS (a b : Option (Option CS)) : Option (Option CS) :=
  match a, b with
  | none, _ => none
  | _, none => none
  | some none, r => r
  | r, some none => r
  | some (some x), some (some y) => if x = y then some (some x) else none

/-- actions that may block or yield: channel operations, timers, calls into the package
(storage, issuer, policy), calls of local closures, other locks -/
def blockingAct (n : String) : Bool :=
  sw "recv:" n || sw "send:" n || sw "cfg." n || sw "time." n ||
  sw "call:" n || ew ".Lock" n || ew ".RLock" n || ew ".Wait" n

/-- accesses of map `m` and closes only under `mu`; the registration reads and inserts in ONE
critical section; a close and the delete of the entry lie in ONE critical section; nothing
that may block or yield is done while `mu` is held; the function is never left with `mu` held -/
def csWalk (mu m : String) : Sk → CS → Option (Option CS)
  | .act n, s =>
      if isCat n mu ".Lock" then (if s.held then none else some (some ⟨true, false, false, false⟩))
      else if isCat n mu ".Unlock" then
        (if s.held && (s.closed == s.deleted) then some (some CS.idle) else none)
      else if isCat n "mapread:" m then (if s.held then some (some { s with read := true }) else none)
      else if isCat n "mapwrite:" m then (if s.held && s.read then some (some s) else none)
      else if isCat n "mapdelete:" m then (if s.held then some (some { s with deleted := true }) else none)
      else if sw "close:" n then (if s.held then some (some { s with closed := true }) else none)
      else (if s.held && blockingAct n then none else some (some s))
  | .ret, s => if s.held then none else some none
  | .pnc, _ => some none
  | .skip, s => some (some s)
  | .seq a b, s =>
      match csWalk mu m a s with
      | none => none
      | some none => some none
      | some (some s') => csWalk mu m b s'
  | .br _ a b, s => joinCS (csWalk mu m a s) (csWalk mu m b s)
  | .loop a, s => joinCS (csWalk mu m a s) (some (some s))
  | .dfr a, s => match csWalk mu m a CS.idle with
      | some (some x) => if x = CS.idle then some (some s) else none
      | _ => none
  | .spawn a, s => match csWalk mu m a CS.idle with
      | none => none
      | some none => if s.held then none else some (some s)
      | some (some x) => if x = CS.idle && !s.held then some (some s) else none
  | .fn a, s => match csWalk mu m a s with
      | none => none
      | some none => some (some CS.idle)
      | some (some x) => if hasRet a then (if x = CS.idle then some (some x) else none) else some (some x)
  | .acq f, s => if s.held then none else joinCS (csWalk mu m f s) (some (some s))

def single_flight_cs (mu m : String) (sk : Sk) : Bool :=
  match csWalk mu m sk CS.idle with
  | none => false
  | some none => true
  | some (some x) => x = CS.idle

/-- after the registration (`mapwrite:m`) the thread owes an unblock (a `close`); a deferred
block that closes covers it; a goroutine may take the debt over. `true` = owed. -/
def owedWalk (m : String) : Sk → Bool → Option (Option Bool)
  | .act n, s =>
      if isCat n "mapwrite:" m then some (some true)
      else if sw "close:" n then some (some false)
      else some (some s)
  | .ret, s => if s then none else some none
  | .pnc, _ => some none
  | .skip, s => some (some s)
  | .seq a b, s =>
      match owedWalk m a s with
      | none => none
      | some none => some none
      | some (some s') => owedWalk m b s'
  | .br _ a b, s =>
      match owedWalk m a s, owedWalk m b s with
      | none, _ => none
      | _, none => none
      | some none, r => r
      | r, some none => r
      | some (some x), some (some y) => some (some (x || y))
  | .loop a, s => match owedWalk m a s with
      | none => none
      | some none => some (some s)
      | some (some x) => some (some (x || s))
  | .dfr a, s => if closes a then some (some false) else some (some s)
  | .spawn a, s => match owedWalk m a s with
      | none => none
      | some none => some (some false)
      | some (some x) => if x then none else some (some false)
  | .fn a, s => match owedWalk m a s with
      | none => none
      | some none => some (some false)
      | some (some x) => some (some x)
  | .acq f, s => match owedWalk m f s with
      | none => none
      | _ => some (some s)

/-- unblock is reached on every path after the registration (panics apart) -/
def unblock_on_every_path (m : String) (sk : Sk) : Bool :=
  match owedWalk m sk false with
  | none => false
  | some none => true
  | some (some x) => !x

def isTimerArm (l : String) : Bool :=
  sw "select <-" l && (ew ".C" l || hasInfix "time.After(" l)

def isRecvArm (l : String) : Bool := sw "select <-" l

/-- labels of a select chain `br "select a" _ (br "select b" _ …)` -/
def selChain : Sk → List String
  | .br c _ b => if sw "select " c then c :: selChain b else []
  | _ => []

/-- every `select` that waits (has a receive arm) has a time-out arm -/
def selectOK : Sk → Bool → Bool
  | .br c a b, inChain =>
      if sw "select " c then
        (inChain || !((c :: selChain b).any isRecvArm) || (c :: selChain b).any isTimerArm) &&
          selectOK a false && selectOK b true
      else selectOK a false && selectOK b false
  | .seq a b, _ => selectOK a false && selectOK b false
  | .loop a, _ => selectOK a false
  | .dfr a, _ => selectOK a false
  | .spawn a, _ => selectOK a false
  | .fn a, _ => selectOK a false
  | .acq f, _ => selectOK f false
  | _, _ => true

def select_has_timeout_arm (sk : Sk) : Bool := selectOK sk false

/-- the critical section of `mu` has a way out that consists of the unlock alone (neither a
wait nor a registration follows inside the branch): the D9 repair's "this channel is mine" -/
def hasBareUnlockBranch (mu : String) : Sk → Bool
  | .br _ a b =>
      (match a with | .act n => isCat n mu ".Unlock" | _ => false) || hasBareUnlockBranch mu a || hasBareUnlockBranch mu b
  | .seq a b => hasBareUnlockBranch mu a || hasBareUnlockBranch mu b
  | .loop a => hasBareUnlockBranch mu a
  | .fn a => hasBareUnlockBranch mu a
  | _ => false

/-- number of selects with a receive arm (non-vacuity of the previous predicate) -/
def countWaits : Sk → Bool → Nat
  | .br c a b, inChain =>
      if sw "select " c then
        (if !inChain && (c :: selChain b).any isRecvArm then 1 else 0) + countWaits a false + countWaits b true
      else countWaits a false + countWaits b false
  | .seq a b, _ => countWaits a false + countWaits b false
  | .loop a, _ => countWaits a false
  | .dfr a, _ => countWaits a false
  | .spawn a, _ => countWaits a false
  | .fn a, _ => countWaits a false
  | .acq f, _ => countWaits f false
  | _, _ => 0

end CM.SkelHS
