/-
GoLite: the target language of the function translator (`go/extract/fn.go`).

The translator turns the BODY of a pure Go function of /repo (a subset: `:=`/`=` on locals,
tuple assignment, `s[i] = e` on the ranged slice, `if`/`else`, `for i[, v] := range xs` with
`continue` and early `return`, calls of a white-listed part of package `strings`, `len`, the
comparison and boolean operators) into a Lean definition over the functions below, statement by
statement (shallow embedding): a local variable is a `let`, an `if` whose branch returns is an
`if … then … else <rest>`, a `for … range` is `forN` over a state tuple holding the variables the
body assigns, `continue` is `.next state`, `return e` inside a loop is `.ret e`.

Everything here is core Lean, total and executable, so the compiled driver can run the GENERATED
definitions beside the hand-written models on every line of the differential (which is what
validates this file and the translator — they are trusted for the theorems, checked by execution).

What is modelled, not verified: Go strings are UTF-8 byte sequences, here lists of code points
(`len` counts UTF-8 bytes); `strings.ToLower` is modelled on ASCII only (every theorem about a
generated function that lower-cases is stated with `toLower` as it stands here, so it is the
correspondence run, on names with non-ASCII capitals, that would notice a difference);
`strings.Split` only with a one-character separator (the translator refuses anything else).
-/
namespace CM.Go

abbrev Str := List Char

/-- string literal -/
def s (x : String) : Str := x.toList

/-- result of one loop iteration: go on with a new state, or return from the function -/
inductive Step (σ ρ : Type) where
  | next (st : σ)
  | ret (v : ρ)

/-- `for i := range <n elements>`: `body i state` for `i = start, start+1, …` (`n` iterations),
until one of them returns. The range expression is evaluated once (its length `n` is fixed). -/
def forN {σ ρ : Type} (body : Int → σ → Step σ ρ) : (n start : Nat) → σ → Step σ ρ
  | 0, _, st => .next st
  | n + 1, i, st =>
    match body (Int.ofNat i) st with
    | .next st' => forN body n (i + 1) st'
    | .ret v => .ret v

/-- `xs[i]` — only emitted for the index variable of the enclosing `range xs` (in bounds) -/
def idx {α : Type} [Inhabited α] (xs : List α) (i : Int) : α := xs.getD i.toNat default

/-- `*p` / `p.f` through a pointer that may be nil (only emitted where the source dereferences) -/
def deref {α : Type} [Inhabited α] (p : Option α) : α := p.getD default

/-- `xs[i] = v` — same restriction -/
def set {α : Type} (xs : List α) (i : Int) (v : α) : List α := xs.set i.toNat v

/-- one iteration of a loop that contains `break` -/
inductive Step3 (σ ρ : Type) where
  | next (st : σ)
  | brk (st : σ)
  | ret (v : ρ)

/-- `for i := 0; i < n; i++ { body }` / `for i := range` with `break`: like `forN`; `break` leaves the loop
with the state it carries and the function goes on after the loop -/
def forB {σ ρ : Type} (body : Int → σ → Step3 σ ρ) : (n start : Nat) → σ → Step σ ρ
  | 0, _, st => .next st
  | n + 1, i, st =>
    match body (Int.ofNat i) st with
    | .next st' => forB body n (i + 1) st'
    | .brk st' => .next st'
    | .ret v => .ret v

/-- `len(xs)` of a slice -/
def lenL {α : Type} (xs : List α) : Int := Int.ofNat xs.length

/-- `make([]T, n)`: `n` zero values -/
def make {α : Type} [Inhabited α] (n : Int) : List α := List.replicate n.toNat default

/-! ### package `time`

A `time.Time` is the number of nanoseconds since the ZERO time (January 1, year 1 UTC), so the zero value
is `0` = `default` and every real instant is positive; a `time.Duration` is an `Int` of nanoseconds.
`Sub` saturates like Go's (±2^63 ns); the monotonic clock reading is not modelled. -/

abbrev Time := Int   -- (the functions below are stated on `Int` so that `omega` sees their arithmetic)

def maxDuration : Int := 9223372036854775807
def minDuration : Int := -9223372036854775808

def time_IsZero (t : Int) : Bool := t == 0
def time_Before (a b : Int) : Bool := decide (a < b)
def time_After (a b : Int) : Bool := decide (a > b)
def time_Equal (a b : Int) : Bool := a == b
def time_Add (t : Int) (d : Int) : Int := t + d
/-- `t.Truncate(d)`: down to a multiple of `d` since the zero time (`d ≤ 0`: unchanged) -/
def time_Truncate (t : Int) (d : Int) : Int := if d ≤ 0 then t else t - t % d
def time_Sub (a b : Int) : Int :=
  if a - b > maxDuration then maxDuration else if a - b < minDuration then minDuration else a - b

/-! ### package `strings` -/

def lowerASCII (c : Char) : Char := if 'A' ≤ c ∧ c ≤ 'Z' then Char.ofNat (c.toNat + 32) else c

def strings_ToLower (x : Str) : Str := x.map lowerASCII

/-- `unicode.IsSpace` -/
def isSpace (c : Char) : Bool :=
  let n := c.toNat
  n = 9 || n = 10 || n = 11 || n = 12 || n = 13 || n = 32 || n = 0x85 || n = 0xA0 || n = 0x1680 ||
  (decide (0x2000 ≤ n) && decide (n ≤ 0x200a)) || n = 0x2028 || n = 0x2029 || n = 0x202f || n = 0x205f || n = 0x3000

def strings_TrimSpace (x : Str) : Str := ((x.dropWhile isSpace).reverse.dropWhile isSpace).reverse

def strings_HasPrefix (x p : Str) : Bool := p.isPrefixOf x

def strings_HasSuffix (x p : Str) : Bool := p.isSuffixOf x

/-- `strings.TrimSuffix` -/
def strings_TrimSuffix (x suf : Str) : Str :=
  if suf.isSuffixOf x then x.take (x.length - suf.length) else x

/-- `strings.Contains` -/
def strings_Contains : Str → Str → Bool
  | [], sub => sub.isEmpty
  | c :: r, sub => sub.isPrefixOf (c :: r) || strings_Contains r sub

def strings_ContainsAny (x chars : Str) : Bool := x.any (fun c => chars.contains c)

/-- `strings.Split(x, string(sep))` for a one-character separator -/
def strings_Split1 (sep : Char) : Str → List Str
  | [] => [[]]
  | c :: r =>
    if c = sep then [] :: strings_Split1 sep r
    else match strings_Split1 sep r with
      | [] => [[c]]
      | l :: ls => (c :: l) :: ls

/-- `strings.Join` -/
def strings_Join : List Str → Str → Str
  | [], _ => []
  | l :: r, sep => match r with
    | [] => l
    | _ :: _ => l ++ sep ++ strings_Join r sep

/-- `strings.Count(x, sub)` for non-empty `sub` of one character -/
def strings_Count1 (x : Str) (c : Char) : Int := Int.ofNat (x.filter (· == c)).length

class Len (α : Type) where
  /-- number of iterations of `range x` / value of `len(x)` -/
  lenN : α → Nat

instance : Len (List Char) := ⟨fun x => x.foldl (fun n c => n + c.utf8Size) 0⟩
instance : Len (List (List Char)) := ⟨List.length⟩

def len {α : Type} [Len α] (x : α) : Int := Int.ofNat (Len.lenN x)

/-! ### lemmas used by the ties (`CM/Tie/FnCxx.lean`) -/

theorem idx_append_length {α : Type} [Inhabited α] (pre : List α) (x : α) (rest : List α) :
    idx (pre ++ x :: rest) (Int.ofNat pre.length) = x := by
  simp [idx]

theorem set_append_length {α : Type} (pre : List α) (x y : α) (rest : List α) :
    set (pre ++ x :: rest) (Int.ofNat pre.length) y = pre ++ y :: rest := by
  simp [set]

theorem strings_Contains_single (x : Str) (c : Char) : strings_Contains x [c] = x.contains c := by
  induction x with
  | nil => simp [strings_Contains]
  | cons a r ih =>
    simp only [strings_Contains, ih]
    simp [List.isPrefixOf]
    cases h : (c == a) <;> simp_all

end CM.Go
