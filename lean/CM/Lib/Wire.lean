/-
Line protocol helpers shared by all driver handlers (core Lean only).

Strings travel as their code points in lower-case hex joined by '.', the empty string
as "-". Integers travel in decimal with an optional leading '-'. A request line is
  `<Cxx> <op> <arg>* [=> <impl-output token>*]`
and the answer is one line `<model output> | <spec verdict> | <branch tag>`.
-/
namespace CM.Wire

def hexDigit (c : Char) : Option Nat :=
  if '0' ≤ c ∧ c ≤ '9' then some (c.toNat - '0'.toNat)
  else if 'a' ≤ c ∧ c ≤ 'f' then some (c.toNat - 'a'.toNat + 10)
  else if 'A' ≤ c ∧ c ≤ 'F' then some (c.toNat - 'A'.toNat + 10)
  else none

def hexNat (s : String) : Option Nat :=
  if s.isEmpty then none else
  s.toList.foldl (fun acc c => match acc, hexDigit c with
    | some a, some d => some (a * 16 + d)
    | _, _ => none) (some 0)

/-- decode a hex-rune token into a list of characters -/
def decStr (tok : String) : Option (List Char) :=
  if tok = "-" then some [] else
  (tok.splitOn ".").foldr (fun p acc => match hexNat p, acc with
    | some n, some l => some (Char.ofNat n :: l)
    | _, _ => none) (some [])

def hexOf (n : Nat) : String := String.ofList (Nat.toDigits 16 n)

def encStr (s : List Char) : String :=
  if s = [] then "-" else String.intercalate "." (s.map (fun c => hexOf c.toNat))

def decInt (s : String) : Option Int := s.toInt?

/-- split a request at the token `=>` into (arguments, impl output tokens) -/
def splitImpl (toks : List String) : List String × List String :=
  let pre := toks.takeWhile (· ≠ "=>")
  let post := (toks.dropWhile (· ≠ "=>")).drop 1
  (pre, post)

def words (line : String) : List String :=
  (line.splitOn " ").filter (· ≠ "")

def reply (model : String) (spec : String) (tag : String) : String :=
  model ++ " | " ++ spec ++ " | " ++ tag

def bad : String := reply "bad-op" "bad-op" "bad-op"

end CM.Wire
