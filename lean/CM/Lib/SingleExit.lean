/-!
# The translator's single-exit conversion is meaning-preserving

`go/extract/normalise.go` inlines functions that did not exist when the tie expectations were
written. A helper with early returns is first brought into *single-exit form*: what follows an
`if` that contains a `return` moves into its branches,

    if c { A; return x }; B        ⇒        if c { A; x } else { B }

(`singleExit` in the Go source). This file states that conversion on a small structured
language and proves, for every program and every behaviour of the conditions, that it changes
neither the effects performed nor the value returned, and that its result has the single-exit
shape the splicer relies on. The Go function is a transcription of `se` below (same case
analysis); the proof is about the algorithm, the transcription is read, not verified.
-/
namespace CM.SingleExit

/-- statement lists in continuation form: `act n k` = an effect then `k`; `ret v` = return
(whatever follows is dead); `br c a b k` = `if c {a} else {b}` followed by `k`, where a
branch either returns or runs to its `done` and falls through into `k` -/
inductive Prog
  | done
  | act (n : Nat) (k : Prog)
  | ret (v : Nat)
  | br (c : Nat) (a b k : Prog)
  deriving Repr, DecidableEq

open Prog

/-- effects in order (an evaluated condition is an effect too) and the value returned, if any -/
def exec (env : Nat → Bool) : Prog → List Nat × Option Nat
  | done => ([], none)
  | act n k => let r := exec env k; (n :: r.1, r.2)
  | ret v => ([], some v)
  | br c a b k =>
    let r := if env c then exec env a else exec env b
    match r.2 with
    | some v => ((1000 + c) :: r.1, some v)
    | none => let q := exec env k; ((1000 + c) :: (r.1 ++ q.1), q.2)

/-- `p` then `k` -/
def seq : Prog → Prog → Prog
  | done, k => k
  | act n p, k => act n (seq p k)
  | ret v, _ => ret v
  | br c a b p, k => br c a b (seq p k)

def hasRet : Prog → Bool
  | done => false
  | act _ k => hasRet k
  | ret _ => true
  | br _ a b k => hasRet a || hasRet b || hasRet k

def size : Prog → Nat
  | done => 1
  | act _ k => 1 + size k
  | ret _ => 1
  | br _ a b k => 1 + size a + size b + size k

theorem size_pos (p : Prog) : 0 < size p := by cases p <;> simp [size] <;> omega

theorem size_seq (p k : Prog) : size (seq p k) + 1 ≤ size p + size k := by
  induction p with
  | done => simp [seq, size]; omega
  | act n p ih => simp [seq, size]; omega
  | ret v => simp [seq, size]; have := size_pos k; omega
  | br c a b p _ _ ih => simp [seq, size]; omega

/-- running `seq p k`: `p`'s effects; if `p` returned that is the result, else `k` follows -/
theorem exec_seq (env : Nat → Bool) (p k : Prog) :
    exec env (seq p k) =
      match (exec env p).2 with
      | some v => ((exec env p).1, some v)
      | none => ((exec env p).1 ++ (exec env k).1, (exec env k).2) := by
  induction p with
  | done => simp [seq, exec]
  | act n p ih =>
    simp only [seq, exec]
    rw [ih]
    cases h : (exec env p).2 <;> simp
  | ret v => simp [seq, exec]
  | br c a b p _ _ ih =>
    simp only [seq, exec]
    cases hr : (if env c = true then exec env a else exec env b).2 with
    | some v => simp
    | none =>
      simp only []
      rw [ih]
      cases h : (exec env p).2 <;> simp [List.append_assoc]

/-- the conversion: the continuation of an `if` that contains a return moves into both of its
branches (nothing is left after it); everything else is kept -/
def se : Prog → Prog
  | done => done
  | act n k => act n (se k)
  | ret v => ret v
  | br c a b k =>
    if hasRet a || hasRet b then br c (se (seq a k)) (se (seq b k)) done
    else br c a b (se k)
termination_by p => size p
decreasing_by
  all_goals simp_wf
  all_goals simp only [size]
  · omega
  · have := size_seq a k; omega
  · have := size_seq b k; omega
  · omega

/-- **Meaning preserved**: for every program and every behaviour of the conditions, the
converted program performs the same effects in the same order and returns the same value. -/
theorem exec_se (env : Nat → Bool) : ∀ (n : Nat) (p : Prog), size p ≤ n → exec env (se p) = exec env p := by
  intro n
  induction n with
  | zero => intro p h; have := size_pos p; omega
  | succ n ih =>
    intro p h
    cases p with
    | done => simp [se]
    | act m k =>
      rw [se]
      simp only [exec]
      rw [ih k (by simp [size] at h; omega)]
    | ret v => simp [se]
    | br c a b k =>
      rw [se]
      have hs : size a + size b + size k ≤ n := by simp [size] at h; omega
      split
      · -- the continuation moves into the branches
        have ha := ih (seq a k) (by have := size_seq a k; omega)
        have hb := ih (seq b k) (by have := size_seq b k; omega)
        simp only [exec]
        by_cases hc : env c = true
        · simp only [hc, if_true]
          rw [ha, exec_seq]
          cases hr : (exec env a).2 <;> simp [hr]
          · cases hk : (exec env k).2 <;> simp [hk]
        · simp only [hc]
          rw [hb, exec_seq]
          cases hr : (exec env b).2 <;> simp [hr]
          · cases hk : (exec env k).2 <;> simp [hk]
      · simp only [exec]
        rw [ih k (by omega)]

theorem se_preserves (env : Nat → Bool) (p : Prog) : exec env (se p) = exec env p :=
  exec_se env (size p) p (Nat.le_refl _)

/-- single-exit shape: nothing follows an `if` that contains a return -/
def shaped : Prog → Bool
  | done => true
  | act _ k => shaped k
  | ret _ => true
  | br _ a b k => shaped a && shaped b && shaped k && (!(hasRet a || hasRet b) || k == done)

theorem shaped_of_noRet : ∀ p : Prog, hasRet p = false → shaped p = true := by
  intro p
  induction p with
  | done => simp [shaped]
  | act n k ih => simp only [hasRet, shaped]; exact ih
  | ret v => simp [hasRet]
  | br c a b k iha ihb ihk =>
    simp only [hasRet, shaped, Bool.or_eq_false_iff]
    rintro ⟨⟨h1, h2⟩, h3⟩
    simp [iha h1, ihb h2, ihk h3, h1, h2]

/-- **Shape**: the result of the conversion is in single-exit form -/
theorem shaped_se : ∀ (n : Nat) (p : Prog), size p ≤ n → shaped (se p) = true := by
  intro n
  induction n with
  | zero => intro p h; have := size_pos p; omega
  | succ n ih =>
    intro p h
    cases p with
    | done => simp [se, shaped]
    | act m k => rw [se]; simp only [shaped]; exact ih k (by simp [size] at h; omega)
    | ret v => simp [se, shaped]
    | br c a b k =>
      rw [se]
      have hs : size a + size b + size k ≤ n := by simp [size] at h; omega
      split
      · simp only [shaped]
        rw [ih (seq a k) (by have := size_seq a k; omega), ih (seq b k) (by have := size_seq b k; omega)]
        simp
      · rename_i hnr
        simp only [Bool.or_eq_true, not_or, Bool.not_eq_true] at hnr
        simp only [shaped]
        rw [shaped_of_noRet a hnr.1, shaped_of_noRet b hnr.2, ih k (by omega)]
        simp [hnr.1, hnr.2]

theorem se_shaped (p : Prog) : shaped (se p) = true := shaped_se (size p) p (Nat.le_refl _)

/-- non-vacuity: the helper shape the refactorings produced (`load; if err {return 0}; parse;
if err {delete; return 0}; if fresh {return 1}; return 0`) is converted, keeps its meaning, and
ends up without anything after its returning `if`s -/
def exHelper : Prog :=
  act 1 (br 10 (ret 0) done (act 2 (br 11 (act 3 (ret 0)) done (br 12 (ret 1) done (ret 0)))))

example : shaped exHelper = false := by decide
example : shaped (se exHelper) = true := se_shaped _
example : exec (fun c => c == 12) (se exHelper) = ([1, 1010, 2, 1011, 1012], some 1) := by
  rw [se_preserves]; decide

end CM.SingleExit
