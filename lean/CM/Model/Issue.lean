/-
C01 — labelled transition system of certificate issuance for ONE subject shared by any
number of requests (goroutines, processes, instances) over one storage + locker.

Written after `Config.obtainCert`, `Config.renewCert`, `Config.manageOne` (config.go),
`storeTx` (storage.go), `doWithRetry` (async.go):

  obtain : pre-check "storage has the bundle" ⇒ done | Lock ⇒ re-check ⇒ done | issue ⇒ save ⇒ Unlock
  renew  : Lock ⇒ load + "still due?" ⇒ done | issue ⇒ save ⇒ Unlock          (force = false)
  manage : load ⇒ (absent ⇒ behaves as obtain) | (due ⇒ behaves as renew) | done
  async  : a failed attempt is retried INSIDE the lock (doWithRetry wraps only the inner closure)

Processes are indexed by `Nat` (unbounded number); `due : Ver → Bool` says whether a
stored version is inside its renewal window (constant during a run: the run is short
relative to certificate lifetimes). One event = one atomic action of the real code at the
granularity of calls to Storage / Locker / Issuer.
-/
namespace CM.Issue

abbrev Ver := Nat

inductive Kind | obtain | renew | manage
  deriving DecidableEq, Repr

inductive PC
  | start
  | wantLock                 -- about to call Lock
  | recheck                  -- holds the lock, about to re-check storage
  | issueBegin               -- decided to ask the issuer
  | issuing                  -- inside Issuer.Issue
  | save                     -- issuer succeeded; about to store the bundle
  | failed                   -- attempt failed (issuer or storage); still holds the lock
  | release (ok : Bool)      -- about to Unlock
  | done (ok : Bool)
  | dead                     -- process died (possibly holding the lock)
  deriving DecidableEq, Repr

def PC.inCS : PC → Bool
  | .recheck | .issueBegin | .issuing | .save | .failed | .release _ => true
  | _ => false

def PC.wantsIssue : PC → Bool
  | .issueBegin | .issuing | .save => true
  | _ => false

structure St where
  lock      : Option Nat
  stored    : Option Ver
  next      : Ver
  pc        : Nat → PC
  kind      : Nat → Kind
  async     : Nat → Bool
  budget    : Nat → Nat        -- retries an async request still has (doWithRetry gives up after maxRetryDuration)
  contacted : Nat → Bool       -- ghost: has this request called the issuer?
  issuedBy  : Nat → Nat        -- ghost: successful issuances per request

inductive Ev
  | pre (p : Nat)
  | acq (p : Nat)
  | recheck (p : Nat)
  | issueBegin (p : Nat)
  | issueEnd (p : Nat) (ok : Bool)
  | saveOk (p : Nat)
  | saveFail (p : Nat) (k : Nat)     -- the k-th of the three stores failed (k = 0,1,2); roll-back restores the earlier ones
  | retry (p : Nat)
  | giveUp (p : Nat)
  | rel (p : Nat)
  | die (p : Nat)
  | expire                           -- a dead holder's lock is taken over (stale lock)
  deriving Repr

def upd {α} (f : Nat → α) (p : Nat) (v : α) : Nat → α := fun q => if q = p then v else f q

@[simp] theorem upd_same {α} (f : Nat → α) (p : Nat) (v : α) : upd f p v p = v := by simp [upd]
theorem upd_other {α} (f : Nat → α) (p q : Nat) (v : α) (h : q ≠ p) : upd f p v q = f q := by simp [upd, h]

def isDue (due : Ver → Bool) : Option Ver → Bool
  | none => false
  | some v => due v

/-- a bundle is stored and it is outside its renewal window -/
def fresh (due : Ver → Bool) (s : St) : Bool :=
  match s.stored with
  | none => false
  | some v => !due v

def step (due : Ver → Bool) (s : St) : Ev → Option St
  | .pre p =>
    if s.pc p = .start then
      match s.kind p with
      | .obtain => some { s with pc := upd s.pc p (if s.stored.isSome then .done true else .wantLock) }
      | .renew => some { s with pc := upd s.pc p .wantLock }
      | .manage =>
        match s.stored with
        | none => some { s with kind := upd s.kind p .obtain }
        | some v => if due v then some { s with kind := upd s.kind p .renew }
                    else some { s with pc := upd s.pc p (.done true) }
    else none
  | .acq p =>
    if s.pc p = .wantLock ∧ s.lock = none then
      some { s with lock := some p, pc := upd s.pc p .recheck }
    else none
  | .recheck p =>
    if s.pc p = .recheck then
      match s.kind p with
      | .renew =>
        match s.stored with
        | none => some { s with pc := upd s.pc p .failed }           -- nothing to renew: load error
        | some v => some { s with pc := upd s.pc p (if due v then .issueBegin else .release true) }
      | _ => some { s with pc := upd s.pc p (if s.stored.isSome then .release true else .issueBegin) }
    else none
  | .issueBegin p =>
    if s.pc p = .issueBegin then
      some { s with pc := upd s.pc p .issuing, contacted := upd s.contacted p true }
    else none
  | .issueEnd p ok =>
    if s.pc p = .issuing then
      some { s with pc := upd s.pc p (if ok then .save else .failed),
                    issuedBy := if ok then upd s.issuedBy p (s.issuedBy p + 1) else s.issuedBy }
    else none
  | .saveOk p =>
    if s.pc p = .save then
      some { s with stored := some s.next, next := s.next + 1, pc := upd s.pc p (.release true) }
    else none
  | .saveFail p _k =>
    if s.pc p = .save then
      -- storeTx rolls back: the keys already written are put back to what they held before
      -- (after the `fix:` commit; it used to delete them, destroying the previous bundle)
      some { s with pc := upd s.pc p .failed }
    else none
  | .retry p =>
    if s.pc p = .failed ∧ s.async p = true ∧ 0 < s.budget p then
      some { s with pc := upd s.pc p .recheck, budget := upd s.budget p (s.budget p - 1) }
    else none
  | .giveUp p =>
    if s.pc p = .failed then some { s with pc := upd s.pc p (.release false) } else none
  | .rel p =>
    match s.pc p with
    | .release ok => some { s with lock := none, pc := upd s.pc p (.done ok) }
    | _ => none
  | .die p =>
    match s.pc p with
    | .done _ => none
    | .dead => none
    | _ => some { s with pc := upd s.pc p .dead }
  | .expire =>
    match s.lock with
    | some q => if s.pc q = .dead then some { s with lock := none } else none
    | none => none

/-- initial states: nobody has started, nobody holds the lock; storage may already hold a
bundle (version 0) or not -/
def initial (s : St) : Prop :=
  s.lock = none ∧ (∀ p, s.pc p = .start) ∧ (∀ p, s.contacted p = false) ∧ (∀ p, s.issuedBy p = 0) ∧
  (s.stored = none ∨ s.stored = some 0) ∧ s.next = 1

/-- executable run (this is the driver's trace validator) -/
def run (due : Ver → Bool) : St → List Ev → Option St
  | s, [] => some s
  | s, e :: es => match step due s e with
    | some s' => run due s' es
    | none => none

inductive Reach (due : Ver → Bool) : St → Prop
  | init {s} : initial s → Reach due s
  | step {s e s'} : Reach due s → step due s e = some s' → Reach due s'

end CM.Issue
