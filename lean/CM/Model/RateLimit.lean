/-
C17 — model of `RingBufferRateLimiter` (ratelimiter.go): the scheduling goroutine `loop`
with `permit`, the clients `Wait` / `Allow`, and the run-time reconfiguration
`SetMaxEvents` (with its copy loops) / `SetWindow`, as a timed labelled transition system.

Time is `Nat` nanoseconds on one clock. A ring slot is `Option Nat`: `none` is Go's zero
`time.Time` (year 1 — "long ago": `zero + window` is always in the past).

The loop goroutine is a little state machine (`Phase`):

  idle ──compute──▶ sleeping t ──fire (now ≥ t)──▶ offering ──handoff w──▶ recording ──record──▶ idle

* `compute`  = `r.mu.Lock(); then := r.ring[r.cursor].Add(r.window); r.mu.Unlock()` and arming
               the timer (for an empty ring with a zero window: straight to `permit`);
* `fire`     = the timer's channel delivers (`now ≥ then`) and `permit` blocks in its `select`
               sending on `r.ticket`;
* `handoff w`= waiter `w` (blocked in `Wait`) — or an `Allow` call — receives the ticket: this
               is the admission, at instant `now`;
* `record`   = `r.mu.Lock(); r.ring[r.cursor] = time.Now(); r.advance(); r.mu.Unlock()` —
               possibly later than the hand-off (`tick`s may come between);
* `setMax n`, `setWindow w` may come between ANY two of these steps (they only need `r.mu`).

Ghost state (never read by `step` to decide anything; used to state the theorems):
`adm` / `recs` = hand-off / record instants since the last effective configuration change,
newest first; the Boolean carried by a phase says whether the current loop iteration read
the configuration after that change; `got` = ids of all waiters that ever received a
ticket (newest first); `nrec` = number of `record`s ever made.
-/
namespace CM.RateLimit

inductive Phase
  | idle
  | sleeping (t : Nat) (fresh : Bool)
  | offering (fresh : Bool)
  | recording (counted : Bool)
  | stopped
  deriving DecidableEq, Repr

/-- state of a client (one call of `Wait` or `Allow` each) -/
inductive WSt
  | idle        -- has not called yet
  | waiting     -- blocked in `Wait`
  | admitted    -- `Wait` returned nil / `Allow` returned true
  | cancelled   -- `Wait` returned `context.Canceled`
  | refused     -- `Allow` returned false
  deriving DecidableEq, Repr

structure St where
  ring   : List (Option Nat)
  cursor : Nat
  W      : Nat
  now    : Nat
  phase  : Phase
  ws     : Nat → WSt
  adm    : List Nat
  recs   : List Nat
  got    : List Nat
  nrec   : Nat

inductive Ev
  | tick (d : Nat)
  | compute | fire | record
  | handoff (w : Nat)
  | call (w : Nat)
  | cancel (w : Nat)
  | allow (w : Nat)
  | setMax (n : Nat)
  | setWindow (w : Nat)
  | stop
  deriving DecidableEq, Repr

/-- a configuration change makes the iteration in flight one "computed before the change" -/
def stale : Phase → Phase
  | .sleeping t _ => .sleeping t false
  | .offering _ => .offering false
  | .recording _ => .recording false
  | .idle => .idle
  | .stopped => .stopped

/-- `advance`: `r.cursor++; if r.cursor >= len(r.ring) { r.cursor = 0 }` -/
def advance (len c : Nat) : Nat := if c + 1 ≥ len then 0 else c + 1

/-- `for i := 0; i < k; i++ { r.advance() }` -/
def advanceN : Nat → Nat → Nat → Nat
  | 0, _, c => c
  | k + 1, len, c => advanceN k len (advance len c)

/-- the copy loop of `SetMaxEvents`:
`for i := 0; i < len(newRing); i++ { newRing[i] = r.ring[r.cursor]; r.advance(); if r.cursor == startCursor { break } }`
— returns the values written to `newRing[0..]`; `fuel` is `len(newRing) - i`. -/
def copyLoop (ring : List (Option Nat)) (start : Nat) : Nat → Nat → List (Option Nat)
  | 0, _ => []
  | k + 1, c =>
    let x := ring.getD c none
    let c' := advance ring.length c
    if c' = start then [x] else x :: copyLoop ring start k c'

/-- the ring `SetMaxEvents(n)` installs (its cursor is 0): fast-forward `len - n` slots
(nothing if negative), copy from there until `n` values are copied or the old ring is
exhausted, the rest of the new ring stays zero. -/
def resize (ring : List (Option Nat)) (cursor n : Nat) : List (Option Nat) :=
  let c := advanceN (ring.length - n) ring.length cursor
  let copied := if ring.length > 0 then copyLoop ring c n c else []
  copied ++ List.replicate (n - copied.length) none

/-- the ring read from the cursor (oldest first) -/
def view (ring : List (Option Nat)) (c : Nat) : List (Option Nat) := ring.drop c ++ ring.take c

def setW (f : Nat → WSt) (w : Nat) (v : WSt) : Nat → WSt := fun x => if x = w then v else f x

def step (s : St) : Ev → Option St
  | .tick d => some { s with now := s.now + d }
  | .compute =>
    match s.phase with
    | .idle =>
      if s.ring.length = 0 then
        -- `if len(r.ring) == 0 { if r.window == 0 { r.permit(); continue }; panic(...) }`
        if s.W = 0 then some { s with phase := .offering true } else some { s with phase := .stopped }
      else
        match s.ring.getD s.cursor none with
        | none => some { s with phase := .sleeping 0 true }
        | some t => some { s with phase := .sleeping (t + s.W) true }
    | _ => none
  | .fire =>
    match s.phase with
    | .sleeping t f => if t ≤ s.now then some { s with phase := .offering f } else none
    | _ => none
  | .handoff w =>
    match s.phase with
    | .offering _ =>
      if s.ws w = .waiting then
        some { s with phase := .recording true, adm := s.now :: s.adm, got := w :: s.got
                      ws := setW s.ws w .admitted }
      else none
    | _ => none
  | .allow w =>
    if s.ws w = .idle then
      match s.phase with
      | .offering _ =>
        some { s with phase := .recording true, adm := s.now :: s.adm, got := w :: s.got
                      ws := setW s.ws w .admitted }
      | _ => some { s with ws := setW s.ws w .refused }
    else none
  | .record =>
    match s.phase with
    | .recording _ =>
      if s.ring.length > 0 then
        some { s with phase := .idle, ring := s.ring.set s.cursor (some s.now)
                      cursor := advance s.ring.length s.cursor
                      recs := s.now :: s.recs, nrec := s.nrec + 1 }
      else
        some { s with phase := .idle, recs := s.now :: s.recs, nrec := s.nrec + 1 }
    | _ => none
  | .call w => if s.ws w = .idle then some { s with ws := setW s.ws w .waiting } else none
  | .cancel w => if s.ws w = .waiting then some { s with ws := setW s.ws w .cancelled } else none
  | .setMax n =>
    if n = 0 ∧ s.W ≠ 0 then none            -- SetMaxEvents panics (in the caller), state untouched
    else if n = s.ring.length then some s   -- "only make the change if the new limit is different"
    else some { s with ring := resize s.ring s.cursor n, cursor := 0
                       phase := stale s.phase, adm := [], recs := [] }
  | .setWindow w =>
    if s.ring.length = 0 ∧ w ≠ 0 then none  -- SetWindow panics (in the caller)
    else if w = s.W then some s
    else some { s with W := w, phase := stale s.phase, adm := [], recs := [] }
  | .stop =>
    -- `close(r.stopped)` is noticed at the top of the loop, while sleeping, or while offering
    match s.phase with
    | .idle => some { s with phase := .stopped }
    | .sleeping _ _ => some { s with phase := .stopped }
    | .offering _ => some { s with phase := .stopped }
    | _ => none

/-- `NewRateLimiter(N, W)` at instant `T` -/
def init (N W T : Nat) : St :=
  { ring := List.replicate N none, cursor := 0, W := W, now := T, phase := .idle
    ws := fun _ => .idle, adm := [], recs := [], got := [], nrec := 0 }

/-- `NewRateLimiter` panics for `maxEvents == 0 && window != 0` -/
def Init (s : St) : Prop := ∃ N W T, ¬ (N = 0 ∧ W ≠ 0) ∧ s = init N W T

def run (s : St) : List Ev → Option St
  | [] => some s
  | e :: es => match step s e with
    | some s' => run s' es
    | none => none

def Reachable (s : St) : Prop := ∃ s0 es, Init s0 ∧ run s0 es = some s

/-! ### the executable specification (what the driver evaluates on the IMPLEMENTATION's
admission instants, and what `C17_bound_trace` proves of every run of the model) -/

/-- a new admission at `x`, given the admissions `seg` (newest first) of the current period
of constant configuration `(N, W)`: the one `N` places before it is at least `W` older -/
def checkAdm (N W : Nat) (seg : List Nat) (x : Nat) : Bool :=
  match (x :: seg)[N]? with
  | some y => decide (y + W ≤ x)
  | none => true

inductive Obs
  | adm (t : Nat)          -- an admission at instant t
  | cfg (N W : Nat)        -- an effective change of configuration to (N, W)
  deriving Repr

/-- sliding-window bound over an observed history: within every period of constant
configuration any `N + 1` consecutive admissions span at least `W` -/
def boundOK : Nat → Nat → List Nat → List Obs → Bool
  | _, _, _, [] => true
  | N, W, seg, .adm t :: r => checkAdm N W seg t && boundOK N W (t :: seg) r
  | _, _, _, .cfg N' W' :: r => boundOK N' W' [] r

/-- what an observer of admissions and (effective) reconfigurations sees of a run -/
def observe (s : St) : List Ev → List Obs
  | [] => []
  | e :: es =>
    match step s e with
    | none => []
    | some s' =>
      let rest := observe s' es
      match e with
      | .handoff _ => .adm s.now :: rest
      | .allow _ => if s'.got.length = s.got.length then rest else .adm s.now :: rest
      | .setMax _ => if s'.ring.length = s.ring.length then rest else .cfg s'.ring.length s'.W :: rest
      | .setWindow _ => if s'.W = s.W then rest else .cfg s'.ring.length s'.W :: rest
      | _ => rest

/-- what `SetMaxEvents(n)` must do to the ring read from the cursor (oldest first):
keep the newest `n`, or keep everything and add free slots -/
def resizeSpec (v : List (Option Nat)) (n : Nat) : List (Option Nat) :=
  if n ≤ v.length then v.drop (v.length - n) else v ++ List.replicate (n - v.length) none

end CM.RateLimit
