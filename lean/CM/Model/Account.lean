/-
C20 — model of ACME account handling (account.go, acmeclient.go, acmeissuer.go), written
from the code AFTER the `fix:` patches D14 (the local account that is reset on
account-does-not-exist is the one of the directory in use), D19 (the HTTPS rule is applied
to the test CA too), D24 (`deleteAccountLocally` takes the registration lock and leaves a
stored account alone that is not the one the CA rejected) and D25 (the retry after a
re-registration uses the new account).

Part 1 is a labelled transition system over ANY number of client constructions
(`newACMEClientWithAccount`, one per `Issue`) in any number of instances sharing one
storage and one CA, for one (CA, contact):

  storage   `reg`, `key` : the two files `…/users/<contact>/<user>.json` and `….key`,
            holding the identity (a number) of the account they belong to
  lock      the storage lock `register_acme_account_<contact>`
  ca        the set of account keys the CA knows
  pc p      where process p is in `getAccount → lock → getAccount → NewAccount →
            saveAccount (storeTx: read the two old values, store registration, then key;
            on failure put the old registration back / delete it) → unlock`,
            in an order (`ready`), or in the recreate path of `doIssue`
            (`deleteAccountLocally`: lock → load+compare → delete registration → delete key → unlock)

Every non-deterministic choice (who moves, storage faults, CA failures, the CA forgetting
accounts) is carried by the event, so `step` is a function and `run` is the trace validator
the driver uses on histories observed from the real code.

Part 2 is the HTTPS rule of `secureCAURL` / `newBasicACMEClient` / `newACMEClient` and the
host classification of `SubjectIsInternal`, as pure functions of what Go's `url.Parse`,
`net.SplitHostPort` and `net.ParseIP` report.
-/
namespace CM.Account

/-! ## Part 1: the account protocol -/

inductive PC
  | idle
  | loadReg                       -- first getAccount (no lock): Load registration pending
  | loadKey (a : Nat)             -- registration of a read; Load private key pending
  | wantLock                      -- no account in storage (new key made): acquireLock pending
  | reload                        -- lock held: second getAccount pending
  | register (k : Nat)            -- lock held, nothing stored: client.NewAccount pending, fresh key k
  | savePre (k : Nat)             -- registered at the CA: storeTx reads the values it will replace
  | saveReg (k : Nat)             -- Store registration pending
  | saveKey (k : Nat) (prev : Option Nat)   -- Store private key pending; prev = replaced registration
  | rollback (k : Nat) (prev : Option Nat)  -- the key store failed: storeTx puts `prev` back
  | release (r : Option (Nat × Nat))  -- deferred releaseLock pending; r = account to return
  | ready (a k : Nat)             -- client constructed: registration of a, private key of k
  | failed                        -- construction / order returned an error
  | dneLock (a : Nat)             -- the CA answered account-does-not-exist for a: acquireLock pending
  | dneCheck (a : Nat)            -- lock held: loadAccount and comparison pending
  | dneDelReg (a : Nat)           -- Delete registration pending
  | dneDelKey (a : Nat)           -- Delete private key pending
  | dneRel (ok : Bool)            -- deferred releaseLock pending; ok ⇒ construct again
  deriving DecidableEq, Repr

/-- a new construction may begin whenever no construction is in progress -/
def PC.canStart : PC → Bool
  | .idle | .failed | .ready _ _ => true
  | _ => false

/-- outcome of `client.NewAccount` -/
inductive RegOut | ok | refused | lost   -- lost: the CA registered but the answer never arrived
  deriving DecidableEq, Repr

structure St where
  lock : Option Nat
  reg : Option Nat
  key : Option Nat
  ca : Nat → Bool
  pc : Nat → PC
  nextKey : Nat           -- every key made so far is below
  registers : Nat         -- ghost: accounts created at the CA
  faults : Nat            -- ghost: storage faults and lost answers so far
  forgets : Nat           -- ghost: accounts the CA has forgotten
  delKeyFaults : Nat      -- ghost: failed deletions of the key file in the recreate path
  dneAns : Nat → Bool     -- ghost: the CA has answered account-does-not-exist for a
  regW : Nat → Bool       -- ghost: a Store of a's registration has succeeded at some time
  keyW : Nat → Bool       -- ghost: a Store of a's private key has succeeded at some time

def upd (f : Nat → PC) (p : Nat) (v : PC) : Nat → PC := fun q => if q = p then v else f q

@[simp] theorem upd_same (f : Nat → PC) (p : Nat) (v : PC) : upd f p v p = v := by simp [upd]
theorem upd_other (f : Nat → PC) {p q : Nat} (v : PC) (h : q ≠ p) : upd f p v q = f q := by simp [upd, h]

def updB (f : Nat → Bool) (a : Nat) (v : Bool) : Nat → Bool := fun b => if b = a then v else f b

/-- what `loadAccount` returns when both reads happen with no write in between -/
def stored (s : St) : Option (Nat × Nat) :=
  match s.reg, s.key with
  | some a, some b => some (a, b)
  | _, _ => none

inductive Ev
  | start (p : Nat)
  | loadReg (p : Nat) (flt : Bool)
  | loadKey (p : Nat) (flt : Bool)
  | acq (p : Nat) (ok : Bool)
  | reload (p : Nat) (flt : Bool) (k : Nat)      -- k: the key `newAccount` makes if nothing is stored
  | register (p : Nat) (out : RegOut)
  | savePre (p : Nat) (flt : Bool)
  | saveReg (p : Nat) (ok : Bool)
  | saveKey (p : Nat) (ok : Bool)
  | rollback (p : Nat) (ok : Bool)
  | rel (p : Nat) (ok : Bool)
  | order (p : Nat)
  | caForget (a : Nat)
  | dneAcq (p : Nat) (ok : Bool)
  | dneCheck (p : Nat) (flt : Bool)
  | dneDelReg (p : Nat) (ok : Bool)
  | dneDelKey (p : Nat) (ok : Bool)
  | dneRel (p : Nat) (ok : Bool)
  deriving Repr

def step (s : St) : Ev → Option St
  | .start p =>
    if (s.pc p).canStart = true then some { s with pc := upd s.pc p .loadReg } else none
  | .loadReg p flt =>
    if s.pc p = .loadReg then
      if flt = true then some { s with pc := upd s.pc p .failed, faults := s.faults + 1 }
      else match s.reg with
        | some a => some { s with pc := upd s.pc p (.loadKey a) }
        | none => some { s with pc := upd s.pc p .wantLock }
    else none
  | .loadKey p flt =>
    match s.pc p with
    | .loadKey a =>
      if flt = true then some { s with pc := upd s.pc p .failed, faults := s.faults + 1 }
      else match s.key with
        | some b => some { s with pc := upd s.pc p (.ready a b) }
        | none => some { s with pc := upd s.pc p .wantLock }
    | _ => none
  | .acq p ok =>
    if s.pc p = .wantLock then
      if ok = true then
        if s.lock = none then some { s with lock := some p, pc := upd s.pc p .reload } else none
      else some { s with pc := upd s.pc p .failed, faults := s.faults + 1 }
    else none
  | .reload p flt k =>
    if s.pc p = .reload then
      if flt = true then some { s with pc := upd s.pc p (.release none), faults := s.faults + 1 }
      else match stored s with
        | some ab => some { s with pc := upd s.pc p (.release (some ab)) }
        | none =>
          if s.nextKey ≤ k then some { s with pc := upd s.pc p (.register k), nextKey := k + 1 } else none
    else none
  | .register p out =>
    match s.pc p with
    | .register k =>
      match out with
      | .ok => some { s with ca := updB s.ca k true, registers := s.registers + 1, pc := upd s.pc p (.savePre k) }
      | .refused => some { s with pc := upd s.pc p (.release none) }
      | .lost => some { s with ca := updB s.ca k true, registers := s.registers + 1, faults := s.faults + 1,
                               pc := upd s.pc p (.release none) }
    | _ => none
  | .savePre p flt =>
    match s.pc p with
    | .savePre k =>
      if flt = true then some { s with pc := upd s.pc p (.release none), faults := s.faults + 1 }
      else some { s with pc := upd s.pc p (.saveReg k) }
    | _ => none
  | .saveReg p ok =>
    match s.pc p with
    | .saveReg k =>
      if ok = true then some { s with reg := some k, pc := upd s.pc p (.saveKey k s.reg), regW := updB s.regW k true }
      else some { s with pc := upd s.pc p (.release none), faults := s.faults + 1 }
    | _ => none
  | .saveKey p ok =>
    match s.pc p with
    | .saveKey k prev =>
      if ok = true then some { s with key := some k, pc := upd s.pc p (.release (some (k, k))), keyW := updB s.keyW k true }
      else some { s with pc := upd s.pc p (.rollback k prev), faults := s.faults + 1 }
    | _ => none
  | .rollback p ok =>
    match s.pc p with
    | .rollback _ prev =>
      if ok = true then some { s with reg := prev, pc := upd s.pc p (.release none) }
      else some { s with pc := upd s.pc p (.release none), faults := s.faults + 1 }
    | _ => none
  | .rel p ok =>
    match s.pc p with
    | .release r =>
      let next : PC := match r with
        | some (a, b) => .ready a b
        | none => .failed
      if ok = true then some { s with lock := none, pc := upd s.pc p next }
      else some { s with pc := upd s.pc p next, faults := s.faults + 1 }
    | _ => none
  | .order p =>
    match s.pc p with
    | .ready a k =>
      if s.ca a = false then some { s with pc := upd s.pc p (.dneLock a), dneAns := updB s.dneAns a true }
      else if a = k then some s
      else some { s with pc := upd s.pc p .failed }
    | _ => none
  | .caForget a => some { s with ca := updB s.ca a false, forgets := s.forgets + 1 }
  | .dneAcq p ok =>
    match s.pc p with
    | .dneLock a =>
      if ok = true then
        if s.lock = none then some { s with lock := some p, pc := upd s.pc p (.dneCheck a) } else none
      else some { s with pc := upd s.pc p .failed, faults := s.faults + 1 }
    | _ => none
  | .dneCheck p flt =>
    match s.pc p with
    | .dneCheck a =>
      if flt = true then some { s with pc := upd s.pc p (.dneRel false), faults := s.faults + 1 }
      else match stored s with
        | some (a', _) =>
          if a' = a then some { s with pc := upd s.pc p (.dneDelReg a) }
          else some { s with pc := upd s.pc p (.dneRel true) }
        | none => some { s with pc := upd s.pc p (.dneDelReg a) }
    | _ => none
  | .dneDelReg p ok =>
    match s.pc p with
    | .dneDelReg a =>
      if ok = true then some { s with reg := none, pc := upd s.pc p (.dneDelKey a) }
      else some { s with pc := upd s.pc p (.dneRel false), faults := s.faults + 1 }
    | _ => none
  | .dneDelKey p ok =>
    match s.pc p with
    | .dneDelKey _ =>
      if ok = true then some { s with key := none, pc := upd s.pc p (.dneRel true) }
      else some { s with pc := upd s.pc p (.dneRel false), faults := s.faults + 1,
                         delKeyFaults := s.delKeyFaults + 1 }
    | _ => none
  | .dneRel p ok =>
    match s.pc p with
    | .dneRel r =>
      let next : PC := if r = true then .loadReg else .failed
      if ok = true then some { s with lock := none, pc := upd s.pc p next }
      else some { s with pc := upd s.pc p next, faults := s.faults + 1 }
    | _ => none

def init : St :=
  { lock := none, reg := none, key := none, ca := fun _ => false, pc := fun _ => .idle, nextKey := 0
    registers := 0, faults := 0, forgets := 0, delKeyFaults := 0, dneAns := fun _ => false
    regW := fun _ => false, keyW := fun _ => false }

/-- the trace validator: a history is a run iff every event is enabled in turn -/
def run (s : St) : List Ev → Option St
  | [] => some s
  | e :: t => match step s e with
    | some s' => run s' t
    | none => none

/-- what the examples and the driver look at -/
structure View where
  registers : Nat
  faults : Nat
  forgets : Nat
  reg : Option Nat
  key : Option Nat
  lock : Option Nat
  pcs : List PC
  deriving DecidableEq, Repr

def view (n : Nat) (s : St) : View :=
  { registers := s.registers, faults := s.faults, forgets := s.forgets, reg := s.reg, key := s.key, lock := s.lock
    pcs := (List.range n).map s.pc }

inductive Reach : St → Prop
  | init : Reach init
  | step {s e s'} : Reach s → step s e = some s' → Reach s'

/-- names the model stands for (tied to the source by CM/Tie/C20) -/
def lockNamePrefix : String := "register_acme_account"
def regFile : String × String := ("registration", ".json")
def keyFile : String × String := ("private", ".key")

/-! ## Part 2: the HTTPS rule -/

def httpsL : List Char := "https".toList
def httpsPrefix : List Char := "https://".toList

/-- `strings.Contains(s, "://")` -/
def hasSep : List Char → Bool
  | [] => false
  | c :: t => (c == ':' && t.take 2 == ['/', '/']) || hasSep t

/-- the string handed to `url.Parse`: https is assumed when the scheme is missing -/
def withScheme (s : List Char) : List Char := if hasSep s then s else httpsPrefix ++ s

/-- what Go reports about the string handed to `url.Parse` -/
structure UrlFacts where
  parseOK : Bool
  scheme : List Char
  internal : Bool        -- SubjectIsInternal(u.Host)
  deriving DecidableEq, Repr

/-- `secureCAURL` succeeds -/
def secureCA (u : UrlFacts) : Bool := u.parseOK && (u.scheme == httpsL || u.internal)

inductive Which | ca | test
  deriving DecidableEq, Repr

/-- `newACMEClient(useTestCA)`: which configured URL becomes the client's directory, if the
construction succeeds (`testSet` = `iss.TestCA != ""`) -/
def newClient (ca test : UrlFacts) (testSet useTest : Bool) : Option Which :=
  if secureCA ca then
    if useTest && testSet then (if secureCA test then some .test else none) else some .ca
  else none

def Which.pick (w : Which) (ca test : UrlFacts) : UrlFacts :=
  match w with
  | .ca => ca
  | .test => test

/-! ### `SubjectIsInternal` -/

def endsWith (s suf : List Char) : Bool := suf.isSuffixOf s

/-- the networks of `isInternalIP`: (CIDR as written, network bytes, prefix length) -/
def privateNetworks : List (String × List Nat × Nat) :=
  [ ("127.0.0.0/8", [127, 0, 0, 0], 8),
    ("0.0.0.0/16", [0, 0, 0, 0], 16),
    ("10.0.0.0/8", [10, 0, 0, 0], 8),
    ("172.16.0.0/12", [172, 16, 0, 0], 12),
    ("192.168.0.0/16", [192, 168, 0, 0], 16),
    ("169.254.0.0/16", [169, 254, 0, 0], 16),
    ("::1/7", [0, 0, 0, 0, 0, 0, 0, 0, 0, 0, 0, 0, 0, 0, 0, 0], 7),
    ("fe80::/10", [0xfe, 0x80, 0, 0, 0, 0, 0, 0, 0, 0, 0, 0, 0, 0, 0, 0], 10),
    ("fc00::/7", [0xfc, 0, 0, 0, 0, 0, 0, 0, 0, 0, 0, 0, 0, 0, 0, 0], 7) ]

/-- `IPNet.Contains` on byte lists (ip already reduced with `To4`) -/
def inNet (ip net : List Nat) (bits : Nat) : Bool :=
  ip.length == net.length &&
  ip.take (bits / 8) == net.take (bits / 8) &&
  (bits % 8 == 0 ||
    (ip.getD (bits / 8) 0) / 2 ^ (8 - bits % 8) == (net.getD (bits / 8) 0) / 2 ^ (8 - bits % 8))

def internalIP (ip : List Nat) : Bool := privateNetworks.any (fun n => inNet ip n.2.1 n.2.2)

def internalSuffixes : List String := [".localhost", ".local", ".internal", ".home.arpa"]

/-- `SubjectIsInternal`, given the lower-cased host without port and trailing dot and the
bytes of `net.ParseIP` of it (`[]` if it is not an IP address) -/
def internalHost (h : List Char) (ip : List Nat) : Bool :=
  h == "localhost".toList || internalSuffixes.any (fun suf => endsWith h suf.toList) || internalIP ip

end CM.Account
