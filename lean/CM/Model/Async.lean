/-
C19 — models of the background machinery of certmagic (async.go, acmeissuer.go), written
after the code (async.go after the `fix:` commits "return the last error when doWithRetry gives
up" and D15, which releases a panicking job's name and keeps its worker alive).

(a) `retry`  — `doWithRetry` (async.go):

      var attempts int; ctx = WithValue(ctx, AttemptsCtxKey, &attempts)
      start, intervalIndex := time.Now(), -1
      for time.Since(start) < maxRetryDuration {
          var wait time.Duration
          if intervalIndex >= 0 { wait = retryIntervals[intervalIndex] }
          timer := time.NewTimer(wait)
          select {
          case <-ctx.Done():  timer.Stop(); return context.Canceled
          case <-timer.C:
              err = f(ctx); attempts++
              if err == nil || errors.Is(err, context.Canceled) { return err }
              if errors.As(err, &ErrNoRetry{}) { return err }
              if intervalIndex < len(retryIntervals)-1 { intervalIndex++ }
              if time.Since(start) < maxRetryDuration { log "will retry" }
              else { log "final attempt; giving up"; return err }
          }
      }
      return err

    All instants are `Nat` nanoseconds since `start`. The outcome and the duration of the
    k-th call of `f` are inputs (`script k`), as are the instant at which the context is
    cancelled and the resolution of a `select` in which the timer and the cancellation are
    ready at the same instant (`tie k`; Go chooses pseudo-randomly). Time passes only in
    the timer wait and inside `f`, so the `for` condition is evaluated at the instant of
    the preceding in-loop test and always agrees with it (the trailing `return err` is not
    reachable on this clock). The loop is a structural recursion on fuel; `C19_gives_up`
    proves that the fuel `maxDur + 2` is never exhausted for a positive table.

(b) job manager — `jobManager.Submit` / `worker` / `runJob` as a labelled transition system.

(c) `issue` — which ACME directory `ACMEIssuer.Issue`/`doIssue`/`newACMEClient` use, when
    the internal throttle applies, which certificate is returned and how errors are classed.

Core Lean only.
-/
namespace CM.Async

/-! ## (a) doWithRetry -/

def minute : Nat := 60000000000
def hour : Nat := 60 * minute

/-- `retryIntervals` (ns). `CM.Tie.C19.C19_table_tie`: equal to the table regenerated from
async.go on every run. -/
def table : List Nat :=
  [1 * minute, 2 * minute, 2 * minute, 5 * minute, 10 * minute, 10 * minute, 10 * minute,
   20 * minute, 20 * minute, 20 * minute, 20 * minute,
   30 * minute, 30 * minute, 30 * minute, 30 * minute, 30 * minute, 30 * minute,
   1 * hour, 1 * hour, 1 * hour, 2 * hour, 2 * hour, 3 * hour, 3 * hour, 6 * hour]

/-- `maxRetryDuration` = 30 days (ns) -/
def maxDur : Nat := 24 * hour * 30

/-- what one call of `f` returns: nil / a plain error / an error wrapping `ErrNoRetry` /
an error that `Is(context.Canceled)` -/
inductive Outcome | ok | fail | noRetry | canceledErr
  deriving DecidableEq, Repr

structure Att where
  out : Outcome
  dur : Nat          -- (virtual) time the call itself takes
  deriving Repr

structure RetryIn where
  script   : Nat → Att          -- the k-th call of `f` (k = 0, 1, …)
  cancelAt : Option Nat         -- instant at which ctx is cancelled (none: never)
  tie      : Nat → Bool         -- `select` before attempt k with both cases ready: does cancellation win?

/-- what `doWithRetry` returns: nil after success / the last attempt's (plain) error after giving
up — since the `fix:` commit "return the last error when doWithRetry gives up" / `context.Canceled`
from the select / f's cancellation error / f's non-retryable error -/
inductive Res | ok | gaveUpErr | canceled | canceledErr | noRetry | outOfFuel
  deriving DecidableEq, Repr

structure RetryOut where
  trace : List (Nat × Nat)      -- (value of the attempts counter seen by f, start instant)
  res   : Res
  ret   : Nat                   -- instant of return
  deriving Repr

/-- `wait` of one iteration: 0 while `intervalIndex = -1` (`none`), else the table entry -/
def waitOf (tbl : List Nat) : Option Nat → Nat
  | none => 0
  | some i => tbl.getD i 0

/-- `if intervalIndex < len(retryIntervals)-1 { intervalIndex++ }` -/
def nextIdx (tbl : List Nat) : Option Nat → Option Nat
  | none => if 0 < tbl.length then some 0 else none
  | some i => if i + 1 < tbl.length then some (i + 1) else some i

/-- the `select` entered at `now` with the timer due at `T ≥ now`: `some ci` if the
cancellation case is taken (at instant `ci`), `none` if the timer case is taken (at `T`) -/
def cancelWins (i : RetryIn) (k now T : Nat) : Option Nat :=
  match i.cancelAt with
  | none => none
  | some c =>
    let ci := max c now
    if ci < T then some ci
    else if ci = T ∧ i.tie k = true then some ci
    else none

/-- one iteration of the loop -/
inductive StepR
  | cancel (ci : Nat)                 -- returned `context.Canceled` at `ci`
  | final (T E : Nat) (r : Res)       -- attempt from `T` to `E`, then return `r`
  | more (T E : Nat)                  -- attempt from `T` to `E` failed; loop again
  deriving Repr

def stepR (tbl : List Nat) (mx : Nat) (i : RetryIn) (k : Nat) (idx : Option Nat) (now : Nat) : StepR :=
  let T := now + waitOf tbl idx
  match cancelWins i k now T with
  | some ci => .cancel ci
  | none =>
    let E := T + (i.script k).dur
    match (i.script k).out with
    | .ok => .final T E .ok
    | .canceledErr => .final T E .canceledErr
    | .noRetry => .final T E .noRetry
    | .fail => if E < mx then .more T E else .final T E .gaveUpErr

/-- the loop: `k` = attempts counter, `idx` = intervalIndex, `now` = time since start -/
def loop (tbl : List Nat) (mx : Nat) (i : RetryIn) : Nat → Nat → Option Nat → Nat → RetryOut
  | 0, _, _, now => { trace := [], res := .outOfFuel, ret := now }
  | fuel + 1, k, idx, now =>
    match stepR tbl mx i k idx now with
    | .cancel ci => { trace := [], res := .canceled, ret := ci }
    | .final T E r => { trace := [(k, T)], res := r, ret := E }
    | .more T E =>
      let o := loop tbl mx i fuel (k + 1) (nextIdx tbl idx) E
      { trace := (k, T) :: o.trace, res := o.res, ret := o.ret }

/-- `doWithRetry` for a given table and maximum duration -/
def retryWith (tbl : List Nat) (mx : Nat) (i : RetryIn) : RetryOut :=
  loop tbl mx i (mx + 2) 0 none 0

/-- `doWithRetry` with the constants of async.go -/
def retry (i : RetryIn) : RetryOut := retryWith table maxDur i

/-- instant at which the last attempt of a trace ended (0 if there was none) -/
def lastEnd (i : RetryIn) (tr : List (Nat × Nat)) : Nat :=
  match tr.getLast? with
  | none => 0
  | some (n, t) => t + (i.script n).dur

/-- the table is usable: non-empty and every entry positive -/
def Positive (tbl : List Nat) : Prop := tbl ≠ [] ∧ ∀ x ∈ tbl, 0 < x

/-! ### executable specification of a retry run

What C19 demands of *any* observed run of the retry loop, given the script of attempt outcomes
and the cancellation instant — used by the driver to judge the implementation's traces
(independently of the model's output); `C19_spec_accepts_model` shows it is implied by the
theorems on the model's own runs. `none` = accepted, `some reason` = rejected. -/

def afterCancel (cancel : Option Nat) (t : Nat) : Bool :=
  match cancel with
  | some c => decide (c < t)
  | none => false

/-- the attempts: numbers p, p+1, …; nothing started after the cancellation; an attempt that is
followed by another one failed retryably; the pause before the next attempt is at least a
minute and exactly the documented table entry; no pause begins once `maxDur` has elapsed -/
def specGo (sc : Nat → Att) (cancel : Option Nat) : Nat → List (Nat × Nat) → Option String
  | _, [] => none
  | p, (n, t) :: rest =>
    if n ≠ p then some "attempt-number"
    else if afterCancel cancel t = true then some "attempt-after-cancel"
    else match rest with
      | [] => none
      | (_, t') :: _ =>
        let e := t + (sc p).dur
        if (sc p).out ≠ .fail then some "attempt-after-terminal"
        else if t' < e + minute then some "retry-too-soon"
        else if t' ≠ e + table.getD (min p (table.length - 1)) 0 then some "off-schedule"
        else if maxDur ≤ e then some "retry-after-max-duration"
        else specGo sc cancel (p + 1) rest

def specAttempts (sc : Nat → Att) (cancel : Option Nat) (tr : List (Nat × Nat)) : Option String :=
  specGo sc cancel 0 tr

/-- the end: a cancelled run returns at the cancellation instant (or when the attempt then in
progress ends); any other run returns when its last attempt ends, with the result that attempt's
outcome dictates; giving up — with that attempt's error, never nil — only after `maxDur` -/
def specEnd (sc : Nat → Att) (cancel : Option Nat) (tr : List (Nat × Nat)) (res : Res) (ret : Nat) : Option String :=
  let le := lastEnd { script := sc, cancelAt := cancel, tie := fun _ => false } tr
  match res with
  | .outOfFuel => some "no-result"
  | .canceled =>
    match cancel with
    | none => some "spurious-cancel"
    | some c => if ret = max c le then none else some "late-return-after-cancel"
  | r =>
    match tr.getLast? with
    | none => some "no-attempt"
    | some (n, _) =>
      if ret ≠ le then some "return-instant"
      else match (sc n).out, r with
        | .ok, .ok => none
        | .noRetry, .noRetry => none
        | .canceledErr, .canceledErr => none
        | .fail, .gaveUpErr => if maxDur ≤ le then none else some "gave-up-early"
        | .fail, .ok => some "failure-reported-as-success"
        | .fail, _ => some "stopped-retrying"
        | _, _ => some "result"

/-! ## (b) the job manager -/

structure Job where
  id   : Nat
  name : String
  deriving DecidableEq, Repr

/-- state of one worker goroutine: not started or exited / about to look at the queue
(between jobs, before `jm.mu.Lock()`) / inside `next.job()` / job over (returned, failed or
panicked) and its name not yet released (inside `runJob`'s deferred function) -/
inductive WS
  | off
  | idle
  | running (j : Job)
  | finishing (j : Job)
  deriving DecidableEq, Repr

structure JM where
  queue  : List Job            -- jm.queue
  names  : String → Bool       -- jm.names (as a characteristic function)
  active : Nat                 -- jm.activeWorkers
  maxW   : Nat                 -- jm.maxConcurrentJobs
  nextW  : Nat                 -- number of worker goroutines started so far
  ws     : Nat → WS            -- state of the w-th worker goroutine ever started

inductive Ev
  | submit (id : Nat) (name : String)   -- `jm.Submit(logger, name, job)` (one critical section)
  | take (w : Nat)                      -- worker w finds the queue non-empty and dequeues its head
  | workerExit (w : Nat)                -- worker w finds the queue empty: activeWorkers--, return
  | jobReturn (w : Nat) (ok : Bool)     -- the job of worker w returns nil / an error
  | jobPanic (w : Nat)                  -- the job of worker w panics (recovered in runJob)
  | release (w : Nat)                   -- runJob's deferred function deletes the job's name
  deriving DecidableEq, Repr

def upd {α : Type} (f : Nat → α) (w : Nat) (v : α) : Nat → α := fun x => if x = w then v else f x

def setName (f : String → Bool) (n : String) (b : Bool) : String → Bool :=
  fun x => if x = n then b else f x

def init (m : Nat) : JM :=
  { queue := [], names := fun _ => false, active := 0, maxW := m, nextW := 0, ws := fun _ => .off }

def step (s : JM) : Ev → Option JM
  | .submit id name =>
    if name ≠ "" ∧ s.names name = true then some s        -- duplicate: no-op
    else
      let names := if name = "" then s.names else setName s.names name true
      let q := s.queue ++ [{ id := id, name := name }]
      if s.active < s.maxW then
        some { s with queue := q, names := names, active := s.active + 1
                      nextW := s.nextW + 1, ws := upd s.ws s.nextW .idle }
      else some { s with queue := q, names := names }
  | .take w =>
    match s.ws w, s.queue with
    | .idle, j :: rest => some { s with queue := rest, ws := upd s.ws w (.running j) }
    | _, _ => none
  | .workerExit w =>
    match s.ws w, s.queue with
    | .idle, [] => some { s with active := s.active - 1, ws := upd s.ws w .off }
    | _, _ => none
  | .jobReturn w _ =>
    match s.ws w with
    | .running j => some { s with ws := upd s.ws w (.finishing j) }
    | _ => none
  | .jobPanic w =>
    match s.ws w with
    | .running j => some { s with ws := upd s.ws w (.finishing j) }
    | _ => none
  | .release w =>
    match s.ws w with
    | .finishing j =>
      some { s with names := if j.name = "" then s.names else setName s.names j.name false
                    ws := upd s.ws w .idle }
    | _ => none

def run (s : JM) : List Ev → Option JM
  | [] => some s
  | e :: es => match step s e with
    | none => none
    | some s' => run s' es

inductive Reachable (m : Nat) : JM → Prop
  | init : Reachable m (init m)
  | step {s s' : JM} (e : Ev) : Reachable m s → step s e = some s' → Reachable m s'

/-- sum of a weight over the workers `0 … n-1` -/
def sumW (g : WS → Nat) (f : Nat → WS) : Nat → Nat
  | 0 => 0
  | n + 1 => sumW g f n + g (f n)

def aliveW : WS → Nat
  | .off => 0
  | _ => 1

/-- does this worker hold (run, or not yet have released) a job named `n`? -/
def holdsW (n : String) : WS → Nat
  | .running j => if j.name = n then 1 else 0
  | .finishing j => if j.name = n then 1 else 0
  | _ => 0

/-- number of jobs named `n` that are queued, running, or finished but not yet released -/
def occ (s : JM) (n : String) : Nat :=
  s.queue.countP (fun j => j.name = n) + sumW (holdsW n) s.ws s.nextW

/-- worker steps still owed by a worker before it looks at the queue again -/
def workW : WS → Nat
  | .running _ => 2
  | .finishing _ => 1
  | _ => 0

/-- bound on the worker events that can occur before the job at queue position `p` is taken -/
def mu (s : JM) (p : Nat) : Nat := 3 * p + sumW workW s.ws s.nextW

def Ev.isWorker : Ev → Bool
  | .submit _ _ => false
  | _ => true

def workerEvents (es : List Ev) : Nat := es.countP Ev.isWorker

/-- the jobs dequeued by the `take` events of a run, in order -/
def takenJobs : JM → List Ev → List Job
  | _, [] => []
  | s, e :: es =>
    match step s e with
    | none => []
    | some s' =>
      (match e, s.queue with
        | .take _, j :: _ => [j]
        | _, _ => []) ++ takenJobs s' es

/-! ## (c) which CA `ACMEIssuer.Issue` talks to -/

/-- does the URL contain "://" ? (`strings.Contains(caURL, "://")`) -/
def hasScheme : List Char → Bool
  | [] => false
  | c :: r => (c :: r).take 3 = [':', '/', '/'] || hasScheme r

/-- outcome of one `doIssue` call: a certificate / an error that is not an ACME problem with
status 429 / an `acme.Problem` with status 429 -/
inductive DOut | ok | err | rateLimited
  deriving DecidableEq, Repr

structure IssueIn where
  attempts  : Nat          -- *ctx.Value(AttemptsCtxKey)
  ca        : String       -- am.CA
  testCA    : String       -- am.TestCA
  defaultCA : String       -- DefaultACME.CA
  first     : DOut         -- outcome of the first doIssue call
  second    : DOut         -- outcome of the second one (if it happens)

/-- `newBasicACMEClient`: the production directory URL -/
def prodDir (i : IssueIn) : String :=
  let u := if i.ca = "" then i.defaultCA else i.ca
  if hasScheme u.toList then u else "https://" ++ u

/-- `newACMEClient(useTestCA)`: the directory of the client -/
def directory (i : IssueIn) (useTestCA : Bool) : String :=
  if useTestCA = true ∧ i.testCA ≠ "" then i.testCA else prodDir i

/-- `acmeClient.usingTestCA` -/
def usingTestCA (i : IssueIn) (dir : String) : Bool :=
  decide (i.testCA ≠ "" ∧ dir = i.testCA)

structure Call where
  dir       : String       -- directory the order went to
  throttled : Bool         -- did `client.throttle` run before it?
  usingTest : Bool         -- doIssue's second result
  deriving DecidableEq, Repr

/-- the client-side part of `doIssue(ctx, csr, attempts)` -/
def doIssue (i : IssueIn) (attempts : Nat) : Call :=
  let useTestCA := decide (attempts > 0)
  let dir := directory i useTestCA
  { dir := dir, throttled := !useTestCA, usingTest := usingTestCA i dir }

/-- how `doWithRetry` will treat the error `Issue` returns -/
inductive ErrClass | none | retryable | noRetry
  deriving DecidableEq, Repr

structure IssueOut where
  calls : List Call
  cert  : Option String    -- directory that issued the certificate `Issue` returns
  err   : ErrClass
  deriving DecidableEq, Repr

def issue (i : IssueIn) : IssueOut :=
  let isRetry := decide (i.attempts > 0)
  let c1 := doIssue i i.attempts
  match i.first with
  | .err => { calls := [c1], cert := none, err := .retryable }
  | .rateLimited => { calls := [c1], cert := none, err := .retryable }
  | .ok =>
    if isRetry = true ∧ c1.usingTest = true ∧ i.ca ≠ i.testCA then
      let c2 := doIssue i 0
      match i.second with
      | .ok => { calls := [c1, c2], cert := some c2.dir, err := .none }
      | .rateLimited => { calls := [c1, c2], cert := none, err := .retryable }
      | .err => { calls := [c1, c2], cert := none, err := .noRetry }
    else { calls := [c1], cert := some c1.dir, err := .none }

/-- what the retry loop sees of an `Issue` result -/
def ErrClass.toOutcome : ErrClass → Outcome
  | .none => .ok
  | .retryable => .fail
  | .noRetry => .noRetry

end CM.Async
