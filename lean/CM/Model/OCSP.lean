/-
C14 — model of `stapleOCSP` + `getOCSPForCert` + `freshOCSP` (ocsp.go), the callers that
cache a certificate, and the maintenance step `updateOCSPStaples` / `forceRenew`
(maintain.go), after the `fix:` patch D4 (responses are parsed *for the certificate* —
serial match — on both paths, a stored staple is verified against the issuer when the
chain carries it, and a response is used only inside its own validity period; an absent
NextUpdate is accepted).

An OCSP response enters the model as what an independent verifier reads from its bytes:
status, does its serial match the certificate, does its signature verify for the
certificate's issuer, ThisUpdate, NextUpdate (`none` = absent), and the NotAfter of an
embedded responder certificate if any. Instants/durations: `Int` nanoseconds.
-/
namespace CM.OCSP

def sec : Int := 1000000000
def day : Int := 86400 * sec
/-- `7*24*time.Hour`: below this lifetime a failure to get OCSP is silent -/
def shortLifetime : Int := 7 * day
/-- half of Go's minimum Duration: `zeroTime.Sub(t)` saturates at −2^63 ns, halved by freshOCSP -/
def halfMinDuration : Int := 4611686018427387904

inductive Status | good | revoked | unknown
  deriving DecidableEq, Repr

structure Resp where
  status : Status
  serialMatches : Bool
  signedByIssuer : Bool
  thisUpdate : Int
  nextUpdate : Option Int
  responderNotAfter : Option Int
  deriving DecidableEq, Repr

/-- what is stored under the certificate's staple key -/
inductive Persisted
  | absent                -- nothing there (or it cannot be loaded)
  | corrupt               -- does not parse as an OCSP response
  | parsed (r : Resp)
  deriving DecidableEq, Repr

/-- what querying the responder yields -/
inductive Responder
  | noServer              -- the certificate names no OCSP server
  | overrideEmpty         -- a responder override maps the URL to ""
  | noIssuer              -- leaf-only bundle without an issuing-certificate URL
  | transportErr          -- connection refused / timeout
  | garbage               -- an HTTP answer whose body is not a successful OCSP response
  | answer (r : Resp)
  deriving DecidableEq, Repr

structure StapleIn where
  disabled : Bool
  persisted : Persisted
  responder : Responder
  issuerInChain : Bool    -- the certificate's chain carries its issuer
  notBefore : Int         -- leaf.NotBefore
  notAfter : Int          -- leaf.NotAfter
  now : Int
  storeFails : Bool       -- Storage.Store returns an error
  deriving Repr

inductive Source | storage | responder
  deriving DecidableEq, Repr

structure StapleOut where
  ocspSet : Option Resp          -- cert.ocsp assigned by this call
  stapled : Option (Source × Resp)   -- cert.Certificate.OCSPStaple assigned by this call
  deleted : Bool                 -- the stored staple was deleted
  stored : Bool                  -- Storage.Store was called with the new staple
  contacted : Bool               -- the responder was sent a request
  err : Bool                     -- stapleOCSP returned an error
  deriving Repr

/-- `expiresAt`: NotAfter truncated to the second, plus one second -/
def expiresAt (na : Int) : Int := na / sec * sec + sec

/-- `freshOCSP`: before the middle of the validity period (ending at the responder
certificate's expiry if that comes first). With an absent NextUpdate Go's saturating
`Sub` puts the refresh time 2^62 ns before ThisUpdate. -/
def fresh (now : Int) (r : Resp) : Bool :=
  match r.nextUpdate with
  | none => decide (now < r.thisUpdate - halfMinDuration)
  | some nu =>
    let nu' := match r.responderNotAfter with
      | some ca => if ca < nu then ca else nu
      | none => nu
    decide (now < r.thisUpdate + Int.tdiv (nu' - r.thisUpdate) 2)

/-- `currentOCSP` (D4 repair): inside the response's own validity period -/
def current (now : Int) (r : Resp) : Bool :=
  decide (r.thisUpdate ≤ now) && (match r.nextUpdate with
    | none => true
    | some nu => decide (now ≤ nu))

/-- does `ParseResponseForCert(stored, leaf, issuerFromChain)` accept the stored staple? -/
def storedVerifies (i : StapleIn) (r : Resp) : Bool :=
  r.serialMatches && (!i.issuerInChain || r.signedByIssuer)

/-- does `ParseResponseForCert(answer, leaf, issuer)` accept the responder's answer? -/
def answerVerifies (r : Resp) : Bool := r.serialMatches && r.signedByIssuer

inductive Query
  | fail (contacted : Bool)
  | ok (r : Resp)
  deriving Repr

/-- `getOCSPForCert` -/
def query (i : StapleIn) : Query :=
  match i.responder with
  | .noServer => .fail false
  | .overrideEmpty => .fail false
  | .noIssuer => .fail false
  | .transportErr => .fail true
  | .garbage => .fail true
  | .answer r => if answerVerifies r && current i.now r then .ok r else .fail true

/-- `ocspResp.NextUpdate.After(expiresAt(cert.Leaf))` (false of an absent NextUpdate) -/
def pastExpiry (i : StapleIn) (r : Resp) : Bool :=
  match r.nextUpdate with
  | some nu => decide (nu > expiresAt i.notAfter)
  | none => false

/-- the tail of `stapleOCSP` once a response has been chosen -/
def finish (i : StapleIn) (src : Source) (r : Resp) (deleted : Bool) : StapleOut :=
  if pastExpiry i r then
    { ocspSet := none, stapled := none, deleted := deleted, stored := false
      contacted := decide (src = .responder), err := true }
  else if r.status = .good then
    { ocspSet := some r, stapled := some (src, r), deleted := deleted, stored := decide (src = .responder)
      contacted := decide (src = .responder), err := decide (src = .responder) && i.storeFails }
  else
    { ocspSet := some r, stapled := none, deleted := deleted, stored := false
      contacted := decide (src = .responder), err := false }

def nothing : StapleOut :=
  { ocspSet := none, stapled := none, deleted := false, stored := false, contacted := false, err := false }

/-- the first part of `stapleOCSP`: the stored staple, if it can still be used, and
whether the stored file is deleted -/
def usable (i : StapleIn) : Option Resp × Bool :=
  match i.persisted with
  | .absent => (none, false)
  | .corrupt => (none, true)
  | .parsed r =>
    if storedVerifies i r then (if fresh i.now r && current i.now r then (some r, false) else (none, false))
    else (none, true)

/-- `stapleOCSP` -/
def staple (i : StapleIn) : StapleOut :=
  if i.disabled then nothing else
  match (usable i).1 with
  | some r => finish i .storage r (usable i).2
  | none =>
    match query i with
    | .fail contacted =>
      { nothing with deleted := (usable i).2, contacted := contacted
                     err := decide (¬ (expiresAt i.notAfter - i.notBefore < shortLifetime)) }
    | .ok r => finish i .responder r (usable i).2

/-! ### the callers that make and cache a certificate -/

/-- `makeCertificateWithOCSP` / `CacheUnmanagedTLSCertificate`: the certificate is produced
and cached whatever `stapleOCSP` returns; its staple and `ocsp` are what the call set -/
structure Cached where
  cached : Bool
  staple : Option (Source × Resp)
  ocsp : Option Resp
  deriving Repr

def cacheWithOCSP (i : StapleIn) : Cached :=
  let o := staple i
  { cached := true, staple := o.stapled, ocsp := o.ocspSet }

/-! ### maintenance: `updateOCSPStaples` for one cache entry, and `forceRenew` -/

structure Entry where
  leafNil : Bool
  expired : Bool
  managed : Bool
  hasNames : Bool
  ocsp : Option Resp              -- cert.ocsp
  staple : Option Resp            -- the response whose bytes are in OCSPStaple
  deriving Repr

inductive Decision | skip | refresh | forceRenew
  deriving DecidableEq, Repr

/-- `certShouldBeForceRenewed` -/
def shouldForce (managed hasNames : Bool) (o : Option Resp) : Bool :=
  managed && hasNames && (match o with
    | some r => decide (r.status = .revoked)
    | none => false)

/-- the scan under the read lock -/
def scan (now : Int) (e : Entry) : Decision :=
  if e.leafNil || e.expired then .skip
  else if shouldForce e.managed e.hasNames e.ocsp then .forceRenew
  else match e.ocsp with
    | some r => if r.status ≠ .unknown && fresh now r then .skip else .refresh
    | none => .refresh

/-- how the forced renewal goes: a new certificate is obtained and loaded; the attempt
fails definitively (`RenewCertAsync` returns an error at once); every attempt fails with a
retryable error until the retry budget (30 days) is exhausted, whereupon `doWithRetry`
returns the last error (after the `fix:` commit for D21 — it used to return nil); or the
renewal succeeds but re-loading it from storage fails -/
inductive Renew | ok | fail | gaveUp | reloadFail
  deriving DecidableEq, Repr

inductive After
  | kept (ocsp staple : Option Resp)   -- the same certificate stays cached with these
  | replaced                            -- a newly obtained certificate was loaded in its place
  | removed                             -- the entry was removed from the cache
  deriving DecidableEq, Repr

structure MaintOut where
  decision : Decision
  out : StapleOut                -- effects of the refresh (`nothing` if none happened)
  forced : Bool                  -- forceRenew was called
  after : After
  deriving Repr

/-- `forceRenew` for a certificate whose `ocsp` is Revoked: a successful renewal is loaded
in its place; a failed one — at once, or when the retries are exhausted — removes the
entry ("probably better to not serve a revoked certificate at all"); if the renewal
succeeded but re-loading from storage failed the cache is as it would have been without
the call -/
def afterForce (renew : Renew) (otherwise : After) : After :=
  match renew with
  | .ok => .replaced
  | .fail => .removed
  | .gaveUp => .removed
  | .reloadFail => otherwise

/-- the local copy's `ocsp` / staple after `stapleOCSP` returned without error -/
def localOcsp (e : Entry) (o : StapleOut) : Option Resp :=
  match o.ocspSet with
  | some r => some r
  | none => e.ocsp

def localStaple (e : Entry) (o : StapleOut) : Option Resp :=
  match o.stapled with
  | some (_, r) => some r
  | none => e.staple

def lastNext (e : Entry) : Option Int :=
  match e.ocsp with
  | some r => r.nextUpdate
  | none => none

/-- "advancing OCSP staple": Good, and there was no NextUpdate before or it changed -/
def advance (e : Entry) (o : StapleOut) : Bool :=
  match localOcsp e o with
  | some r => decide (r.status = .good) && ((lastNext e).isNone || decide (lastNext e ≠ r.nextUpdate))
  | none => false

/-- the guarded write-back -/
def written (e : Entry) (o : StapleOut) (stillCached : Bool) : After :=
  if advance e o && stillCached then .kept (localOcsp e o) (localStaple e o) else .kept e.ocsp e.staple

/-- one entry through `updateOCSPStaples`. `i` describes the refresh (`stapleOCSP` with a
nil PEM bundle), `stillCached` whether the entry is still in the cache at write-back. -/
def maintain (e : Entry) (i : StapleIn) (stillCached : Bool) (renew : Renew) : MaintOut :=
  match scan i.now e with
  | .skip => { decision := .skip, out := nothing, forced := false, after := .kept e.ocsp e.staple }
  | .forceRenew =>
    { decision := .forceRenew, out := nothing, forced := true, after := afterForce renew (.kept e.ocsp e.staple) }
  | .refresh =>
    if (staple i).err then
      { decision := .refresh, out := staple i, forced := false, after := .kept e.ocsp e.staple }
    else if shouldForce e.managed e.hasNames (localOcsp e (staple i)) then
      { decision := .refresh, out := staple i, forced := true
        after := afterForce renew (written e (staple i) stillCached) }
    else
      { decision := .refresh, out := staple i, forced := false, after := written e (staple i) stillCached }

end CM.OCSP
