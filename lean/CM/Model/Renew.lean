/-
C04 — model of `Config.certNeedsRenewal` + `currentlyInRenewalWindow` + `expiresAt`
(certificates.go), after the `fix:` commit that computes the ARI cut-off from the
improvised selected time.

All instants and durations are `Int` nanoseconds (Unix time). The configured ratio is a
rational `rnum / rden`; `rnum = 0` is Go's "ratio == 0 ⇒ DefaultRenewalWindowRatio (1/3)".
Go computes `time.Duration(float64(lifetime) * ratio)`; the model uses the exact rational
product truncated toward zero (the driver marks the ±1 µs band around a threshold whose
float product is not provably exact as inconclusive). The value returned by
`rand.Int63n(end-start)` is the input `rnd`.
-/
namespace CM.Renew

def sec : Int := 1000000000

/-- emergency fractions and the interval multiplier (tied to the source by CM/Tie/C04) -/
def ariEmergencyDen : Nat := 20
def emergencyDen : Nat := 50
def intervalFactor : Int := 5
def defaultRatioDen : Nat := 3

structure In where
  now : Int
  nb : Int            -- leaf.NotBefore
  na : Int            -- leaf.NotAfter
  rnum : Nat
  rden : Nat
  interval : Int      -- RenewCheckInterval
  disableARI : Bool
  window : Option (Int × Int)   -- SuggestedWindow, both ends non-zero
  selected : Option Int         -- SelectedTime if non-zero
  rnd : Int                     -- rand.Int63n(end-start): 0 ≤ rnd < end-start

inductive Verdict | yes | no | panics
  deriving DecidableEq, Repr

def Verdict.ofBool : Bool → Verdict
  | true => .yes
  | false => .no

/-- `expiresAt`: NotAfter truncated to the second, plus one second -/
def expiresAt (na : Int) : Int := na / sec * sec + sec

/-- `time.Duration(float64(l) * num/den)` for exactly representable products -/
def scale (l : Int) (num den : Nat) : Int := Int.tdiv (l * num) den

/-- start of the renewal window for a ratio (0 ⇒ default 1/3) -/
def windowStart (nb exp : Int) (num den : Nat) : Int :=
  if num = 0 then exp - scale (exp - nb) 1 defaultRatioDen else exp - scale (exp - nb) num den

/-- `currentlyInRenewalWindow` -/
def inWindow (now nb exp : Int) (num den : Nat) : Bool := decide (now > windowStart nb exp num den)

inductive Sel | none | some (t : Int) | panics
  deriving DecidableEq, Repr

/-- the selected renewal time the decision uses: the stored one, else one improvised inside
the window (`rand.Int63n` panics if the window is shorter than about a second) -/
def effSelected (i : In) : Sel :=
  match i.selected with
  | some t => .some t
  | none =>
    match i.window with
    | none => .none
    | some (ws, we) =>
      let start := ws / sec + 1
      let stop := we / sec
      if stop - start ≤ 0 then .panics else .some ((i.rnd + start) * sec)

/-- the checks that do not involve ARI -/
def baseDue (i : In) : Bool :=
  let exp := expiresAt i.na
  inWindow i.now i.nb exp i.rnum i.rden || inWindow i.now i.nb exp 1 emergencyDen ||
    decide (exp - i.now < i.interval * intervalFactor)

def needsRenewal (i : In) : Verdict :=
  if i.disableARI then .ofBool (baseDue i) else
  match effSelected i with
  | .panics => .panics
  | .none => .ofBool (baseDue i)
  | .some t =>
    .ofBool (decide (i.now > t - i.interval) ||
             inWindow i.now i.nb (expiresAt i.na) 1 ariEmergencyDen || baseDue i)

end CM.Renew
