/-
C13 — the two single-flight maps of handshake.go as a labelled transition system over ANY
number of handshake threads for one name (threads are indexed by `Nat`; a thread that has
not started is `idle`, so "any number" is "any finite set of started indices").

Written after getCertDuringHandshake (load site, L300-331), obtainOnDemandCertificate
(obtain site), renewDynamicCertificate (renew site, incl. the goroutine `renewAndReload`) and
the re-entry `getCertDuringHandshake(ctx, hello, false)` after each wait — WITH the D9 repair
(`fix = true`): a re-entering thread that itself owns the registered load channel neither
waits on it nor registers again. `fix = false` is the unrepaired code (used only to exhibit
the defective history).

Shared state: the two maps (`loadCh`, `obtCh`: the registered channel, if any, with the thread
that registered it), which channels are closed, a counter for fresh channels. Per thread: a
program counter and the registrations it holds.

What is abstracted (honest simplifications; see props.d/C13.json):
 * program-counter LTS written from the code, not the continuation LTS of the effect program
   (DESIGN's richer plan); the cache, storage, policy and issuer are the environment: their
   answers are parameters of the events (hit/miss, found, permit, outcome), so every behaviour
   of theirs is covered, including eviction between two looks;
 * one step = one critical section or one call between two yield points; `finish` is the
   atomic "close + delete + unlock" of the obtain map after the worker's outcome (success,
   issuer error, policy denial, cancellation — the outcome is a parameter), `ret` the deferred
   one of the load map;
 * the certificate obtained a moment ago is not itself due (the obtain worker does not enter
   the obtain/renew site again while it holds the channel) — assumption;
 * panics in a worker (which skip the non-deferred unblock) are outside the quantifier (§9).
-/
namespace CM.SingleFlight

/-- result classes: the current certificate, another certificate (new / default / whatever a
re-entry found in the cache), an error -/
inductive Res
  | cur | other | err
  deriving DecidableEq, Repr

inductive PC
  | idle
  | lookup (load : Bool)            -- getCertDuringHandshake entered, about to look into the cache
  | loadSF (load : Bool)            -- about to enter the load map's critical section
  | waitLoad (c : Nat)              -- select on a load channel (2 min timer, ctx)
  | gate (load : Bool)              -- managers + policy gate (+ default certificate if !load)
  | loading                         -- loadCertFromStorage in flight (Storage.Load)
  | maint (tl rv : Bool)            -- handshakeMaintenance of a due / revoked certificate
  | obtainSF                        -- obtainOnDemandCertificate: about to enter the obtain map's critical section
  | renewSF (tl rv : Bool)          -- renewDynamicCertificate: about to enter it (timeLeft > 0, revoked)
  | waitObtain (c : Nat)            -- select on an obtain channel (2 min timer)
  | obtaining                       -- ObtainCertAsync + load in flight (holds the obtain channel)
  | renewing (bg : Bool)            -- renewAndReload in flight (foreground / goroutine)
  | unwind (r : Res)                -- returning through the frames with result r
  | done (r : Res)
  deriving DecidableEq, Repr

inductive Ev
  | begin (t : Nat)
  | look (t : Nat) (hit maint tl rv : Bool)       -- cache lookup: hit? needs maintenance? timeLeft > 0? revoked?
  | enterLoad (t : Nat)
  | wake (t : Nat)                                 -- the channel waited on is closed
  | timeout (t : Nat)                              -- the 2 min timer fired / the context was cancelled
  | gated (t : Nat) (permit : Bool) (r : Res)     -- permit: go on loading; otherwise / if !load the answer is r
  | loaded (t : Nat) (found maint tl rv : Bool)
  | maintGo (t : Nat) (missing permit : Bool)     -- bundle missing from storage? (then the D5 gate's verdict)
  | enterObtain (t : Nat)
  | enterRenew (t u : Nat)                         -- u: the goroutine started if the renewal goes to the background
  | finish (t : Nat) (ok : Bool)                   -- worker outcome, then close + delete (one critical section)
  | ret (t : Nat)                                  -- leave getCertDuringHandshake (deferred close + delete)
  deriving DecidableEq, Repr

def Ev.actor : Ev → Nat
  | .begin t => t | .look t .. => t | .enterLoad t => t | .wake t => t | .timeout t => t
  | .gated t .. => t | .loaded t .. => t | .maintGo t .. => t | .enterObtain t => t
  | .enterRenew t _ => t | .finish t _ => t | .ret t => t

def upd {α : Type} (f : Nat → α) (i : Nat) (v : α) : Nat → α := fun j => if j = i then v else f j

@[simp] theorem upd_same {α : Type} (f : Nat → α) (i : Nat) (v : α) : upd f i v i = v := by simp [upd]
theorem upd_other {α : Type} (f : Nat → α) (i j : Nat) (v : α) (h : j ≠ i) : upd f i v j = f j := by simp [upd, h]

structure State where
  pc : Nat → PC
  ownL : Nat → Option Nat          -- the load channel this thread has registered and not yet closed
  ownO : Nat → Option Nat          -- … obtain channel …
  loadCh : Option (Nat × Nat)      -- certLoadWaitChans[name]: (channel, registering thread)
  obtCh : Option (Nat × Nat)       -- obtainCertWaitChans[name]
  closedL : Nat → Bool             -- load channels that have been closed
  nextL : Nat                      -- load channels ≥ nextL have not been made yet
  closedO : Nat → Bool             -- obtain channels …
  nextO : Nat

def init : State :=
  { pc := fun _ => .idle, ownL := fun _ => none, ownO := fun _ => none, loadCh := none, obtCh := none,
    closedL := fun _ => false, nextL := 0, closedO := fun _ => false, nextO := 0 }

/-- waiter time-out (both maps) and worker time-outs, nanoseconds (tie: regenerated) -/
def waiterTimeout : Int := 120000000000
def obtainTimeout : Int := 180000000000
def renewBgTimeout : Int := 300000000000
def renewFgTimeout : Int := 90000000000

/-- the decision of renewDynamicCertificate -/
inductive Decision | serveCurrent | waitThenReenter | blockAndRenew | serveAndRenewInBackground
  deriving DecidableEq, Repr

def decision (tl rv inFlight : Bool) : Decision :=
  if inFlight then (if tl && !rv then .serveCurrent else .waitThenReenter)
  else (if tl then .serveAndRenewInBackground else .blockAndRenew)

/-- one step. `fix`: with the D9 repair. -/
def step (fix : Bool) (s : State) : Ev → Option State
  | .begin t =>
    if s.pc t = .idle then some { s with pc := upd s.pc t (.lookup true) } else none
  | .look t hit mt tl rv =>
    match s.pc t with
    | .lookup load =>
      if hit then
        (if load && mt then some { s with pc := upd s.pc t (.maint tl rv) }
         else some { s with pc := upd s.pc t (.unwind (if load then .cur else .other)) })
      else some { s with pc := upd s.pc t (.loadSF load) }
    | _ => none
  | .enterLoad t =>
    match s.pc t with
    | .loadSF load =>
      if fix && !load && (s.ownL t).isSome then
        -- D9 repair: re-entered by the owner of the registered channel
        some { s with pc := upd s.pc t (.gate false) }
      else match s.loadCh with
        | some (c, _) => some { s with pc := upd s.pc t (.waitLoad c) }
        | none =>
          some { s with pc := upd s.pc t (.gate load), ownL := upd s.ownL t (some s.nextL),
                        loadCh := some (s.nextL, t), nextL := s.nextL + 1 }
    | _ => none
  | .wake t =>
    match s.pc t with
    | .waitLoad c => if s.closedL c then some { s with pc := upd s.pc t (.lookup false) } else none
    | .waitObtain c => if s.closedO c then some { s with pc := upd s.pc t (.lookup false) } else none
    | _ => none
  | .timeout t =>
    match s.pc t with
    | .waitLoad _ => some { s with pc := upd s.pc t (.unwind .err) }
    | .waitObtain _ => some { s with pc := upd s.pc t (.unwind .err) }
    | _ => none
  | .gated t permit r =>
    match s.pc t with
    | .gate load =>
      if load && permit then some { s with pc := upd s.pc t .loading }
      else some { s with pc := upd s.pc t (.unwind r) }
    | _ => none
  | .loaded t found mt tl rv =>
    match s.pc t with
    | .loading =>
      if found then
        (if mt then some { s with pc := upd s.pc t (.maint tl rv) }
         else some { s with pc := upd s.pc t (.unwind .cur) })
      else some { s with pc := upd s.pc t .obtainSF }
    | _ => none
  | .maintGo t missing permit =>
    match s.pc t with
    | .maint tl rv =>
      if rv then some { s with pc := upd s.pc t (.renewSF tl rv) }
      else if missing then
        (if permit then some { s with pc := upd s.pc t .obtainSF }
         else some { s with pc := upd s.pc t (.unwind (if tl then .cur else .err)) })
      else some { s with pc := upd s.pc t (.renewSF tl rv) }
    | _ => none
  | .enterObtain t =>
    match s.pc t with
    | .obtainSF =>
      match s.obtCh with
      | some (c, _) => some { s with pc := upd s.pc t (.waitObtain c) }
      | none =>
        some { s with pc := upd s.pc t .obtaining, ownO := upd s.ownO t (some s.nextO),
                      obtCh := some (s.nextO, t), nextO := s.nextO + 1 }
    | _ => none
  | .enterRenew t u =>
    match s.pc t with
    | .renewSF tl rv =>
      match s.obtCh with
      | some (c, _) =>
        if tl && !rv then some { s with pc := upd s.pc t (.unwind .cur) }
        else some { s with pc := upd s.pc t (.waitObtain c) }
      | none =>
        if tl then
          (if u ≠ t ∧ s.pc u = .idle then
            some { s with pc := upd (upd s.pc t (.unwind .cur)) u (.renewing true),
                          ownO := upd s.ownO u (some s.nextO), obtCh := some (s.nextO, u), nextO := s.nextO + 1 }
           else none)
        else
          some { s with pc := upd s.pc t (.renewing false), ownO := upd s.ownO t (some s.nextO),
                        obtCh := some (s.nextO, t), nextO := s.nextO + 1 }
    | _ => none
  | .finish t ok =>
    match s.pc t, s.ownO t with
    | .obtaining, some c =>
      some { s with pc := upd s.pc t (.unwind (if ok then .other else .err)), ownO := upd s.ownO t none,
                    obtCh := none, closedO := upd s.closedO c true }
    | .renewing _, some c =>
      -- (a goroutine's result is dropped; it leaves through `unwind`/`ret` like any thread)
      some { s with pc := upd s.pc t (.unwind (if ok then .other else .err)), ownO := upd s.ownO t none,
                    obtCh := none, closedO := upd s.closedO c true }
    | _, _ => none
  | .ret t =>
    match s.pc t with
    | .unwind r =>
      match s.ownL t with
      | some c => some { s with pc := upd s.pc t (.done r), ownL := upd s.ownL t none, loadCh := none,
                                closedL := upd s.closedL c true }
      | none => some { s with pc := upd s.pc t (.done r) }
    | _ => none

def run (fix : Bool) : State → List Ev → Option State
  | s, [] => some s
  | s, e :: es => match step fix s e with
    | none => none
    | some s' => run fix s' es

/-- reachable states of the repaired code -/
inductive Reachable : State → Prop
  | init : Reachable init
  | step {s s' : State} (e : Ev) : Reachable s → step true s e = some s' → Reachable s'

theorem run_reachable (s s' : State) (es : List Ev) (h : Reachable s) (hr : run true s es = some s') :
    Reachable s' := by
  induction es generalizing s with
  | nil => simp [run] at hr; subst hr; exact h
  | cons e es ih =>
    simp only [run] at hr
    cases hs : step true s e with
    | none => simp [hs] at hr
    | some s1 => simp only [hs] at hr; exact ih s1 (Reachable.step e h hs) hr

end CM.SingleFlight
