/-
C10 — labelled transition system of the write protocol of `FileStorage.Store`
(filestorage.go L81-L99 + internal/atomicfile/file.go) and of `FileStorage.Load`
(`os.ReadFile`: open, read until EOF), for ONE destination name, any number of writers
and readers, any interleaving, writer death at any step.

    Store:  MkdirAll; f = CreateTemp(dir(dst))      -- wCreate : a fresh inode under a temp name
            f.Write(value)                            -- wWrite n: the next n bytes (any chunking)
              on a write error: f.Close; Remove(tmp)  -- wCancel
            f.Sync                                    -- wSync   (only after the whole value was written)
            f.Close                                   -- wClose
            Rename(tmp, dst)                          -- wRename : atomically rebinds the name dst
    Load:   open(dst)                                 -- rOpen   : binds the inode the name has NOW
            read … until EOF                          -- rRead n / rEOF
    kill -9 of a writer at any point                  -- wCrash

POSIX facts assumed (DESIGN §4): `rename` within one directory atomically replaces the
binding of the name; an open file descriptor keeps reading the inode it was opened on;
`CreateTemp` yields a name nobody else uses.

Bytes are `Nat`s. `val w` is the value writer `w` was asked to store (every `Store` call
is its own writer). Ghost state: `renamed` — the writers whose rename has happened, in
order; each reader remembers `renamed.length` at its `open`.
-/
namespace CM.AtomicFile

abbrev Bytes := List Nat

inductive WPC where
  | idle
  | writing (i : Nat)     -- temp file open on inode i
  | synced (i : Nat)
  | closed (i : Nat)
  | done                  -- rename performed, Store returned nil
  | cancelled             -- write error: temp removed, Store returned the error
  | crashed               -- killed before its rename
  | crashedAfter          -- killed after its rename (before Store returned)
  deriving DecidableEq, Repr

inductive RPC where
  | idle
  | reading (i : Nat) (buf : Bytes) (at_ : Nat)   -- at_ = number of renames before the open
  | done (res : Option Bytes) (at_ : Nat)         -- none = not-exist
  deriving DecidableEq, Repr

structure State where
  dst     : Option Nat        -- inode bound to the destination name
  ino     : Nat → Bytes       -- inode contents
  next    : Nat               -- inodes ≥ next are unused
  w       : Nat → WPC
  r       : Nat → RPC
  renamed : List Nat          -- ghost: order of renames

inductive Ev where
  | wCreate (w : Nat) | wWrite (w n : Nat) | wCancel (w : Nat) | wSync (w : Nat) | wClose (w : Nat)
  | wRename (w : Nat) | wCrash (w : Nat)
  | rOpen (r : Nat) | rRead (r n : Nat) | rEOF (r : Nat)
  deriving DecidableEq, Repr

def upd {α : Type} (f : Nat → α) (k : Nat) (v : α) : Nat → α := fun x => if x = k then v else f x

@[simp] theorem upd_same {α : Type} (f : Nat → α) (k : Nat) (v : α) : upd f k v k = v := by simp [upd]
theorem upd_other {α : Type} (f : Nat → α) (k x : Nat) (v : α) (h : x ≠ k) : upd f k v x = f x := by
  simp [upd, h]

/-- the system is parameterised by what each writer stores -/
def step (val : Nat → Bytes) (s : State) : Ev → Option State
  | .wCreate w =>
    match s.w w with
    | .idle => some { s with ino := upd s.ino s.next [], next := s.next + 1, w := upd s.w w (.writing s.next) }
    | _ => none
  | .wWrite w n =>
    match s.w w with
    | .writing i =>
      let have_ := (s.ino i).length
      if 0 < n ∧ have_ < (val w).length then
        some { s with ino := upd s.ino i (s.ino i ++ ((val w).drop have_).take n) }
      else none
    | _ => none
  | .wCancel w =>
    match s.w w with
    | .writing _ => some { s with w := upd s.w w .cancelled }
    | _ => none
  | .wSync w =>
    match s.w w with
    | .writing i => if (s.ino i).length = (val w).length then some { s with w := upd s.w w (.synced i) } else none
    | _ => none
  | .wClose w =>
    match s.w w with
    | .synced i => some { s with w := upd s.w w (.closed i) }
    | _ => none
  | .wRename w =>
    match s.w w with
    | .closed i => some { s with dst := some i, w := upd s.w w .done, renamed := s.renamed ++ [w] }
    | _ => none
  | .wCrash w =>
    match s.w w with
    | .writing _ => some { s with w := upd s.w w .crashed }
    | .synced _ => some { s with w := upd s.w w .crashed }
    | .closed _ => some { s with w := upd s.w w .crashed }
    | .done => some { s with w := upd s.w w .crashedAfter }
    | _ => none
  | .rOpen r =>
    match s.r r with
    | .idle =>
      match s.dst with
      | some i => some { s with r := upd s.r r (.reading i [] s.renamed.length) }
      | none => some { s with r := upd s.r r (.done none s.renamed.length) }
    | _ => none
  | .rRead r n =>
    match s.r r with
    | .reading i buf a =>
      if 0 < n ∧ buf.length < (s.ino i).length then
        some { s with r := upd s.r r (.reading i (buf ++ ((s.ino i).drop buf.length).take n) a) }
      else none
    | _ => none
  | .rEOF r =>
    match s.r r with
    | .reading i buf a =>
      if (s.ino i).length ≤ buf.length then some { s with r := upd s.r r (.done (some buf) a) } else none
    | _ => none

def run (val : Nat → Bytes) : State → List Ev → Option State
  | s, [] => some s
  | s, e :: es => match step val s e with
    | some s' => run val s' es
    | none => none

/-- initial state: the destination is absent (`init = none`) or holds a complete value;
all writers and readers idle -/
def initState (init : Option Bytes) : State where
  dst := init.map (fun _ => 0)
  ino := fun _ => init.getD []
  next := 1
  w := fun _ => .idle
  r := fun _ => .idle
  renamed := []

inductive Reachable (val : Nat → Bytes) (init : Option Bytes) : State → Prop where
  | init : Reachable val init (initState init)
  | step {s s' : State} {e : Ev} : Reachable val init s → step val s e = some s' → Reachable val init s'

/-- the order of a writer's steps that the LTS enforces (`step` enables `wSync` only once the
whole value is written, `wClose` only after `wSync`, `wRename` only after `wClose`), in
the vocabulary of the translator: what `FileStorage.Store` does on its main path, what
`atomicfile.newFile` does first, and what `atomicFile.Close` does -/
def storeProtocol : List String := ["mkdirall", "new", "write", "close"]
def closeProtocol : List String := ["sync", "close", "rename"]

/-- the value the destination name has after the renames `h`: the last renamer's value,
or the initial one -/
def current (val : Nat → Bytes) (init : Option Bytes) (h : List Nat) : Option Bytes :=
  match h.getLast? with
  | some w => some (val w)
  | none => init

/-- what a `Load` that starts now would return -/
def dstContent (s : State) : Option Bytes := s.dst.map s.ino

end CM.AtomicFile
