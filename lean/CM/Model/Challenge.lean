/-
C15 — model of how pending ACME challenges are kept and answered.

Written after the code (with the `fix:` patches D12 and D17 applied):

  solvers.go      solverWrapper.Present / CleanUp      process memory `activeChallenges`, keyed by
                                                        `challengeKey(chal)` (identifier; for TLS-ALPN-01 on an
                                                        IP identifier: its reverse-DNS name)
                  distributedSolver.Present / CleanUp  token file `<issuer prefix>/challenge_tokens/<Safe(key)>.json`
                  challengeKey, GetACMEChallenge
  config.go       getChallengeInfo                     memory first (exact key), then every issuer's storage prefix
                                                        (production CA, then test CA — D17) under the *sanitised*
                                                        name; the stored challenge must be for this name (D12)
  httphandlers.go HandleHTTPChallenge / LooksLikeHTTPChallenge / distributedHTTPChallengeSolver /
                  solveHTTPChallenge
  handshake.go    GetCertificateWithContext (TLS-ALPN branch) / getTLSALPNChallengeCert

Strings are lists of Unicode scalars. Computed by Go and *inputs* here: `hostOnly(r.Host)`
(port stripping), `r.URL.Path` (request-target parsing and percent-decoding),
`dns.ReverseAddr`, whether `idna.ToASCII(identifier)` succeeds, the sanitiser `Safe` (C11's
model in the driver; an arbitrary function in the theorems) and Unicode simple case folding
(`strings.EqualFold`; a per-character canonical representative `fold`).
-/
namespace CM.Challenge

abbrev Str := List Char

/-- environment: functions computed by Go's libraries -/
structure Env where
  safe : Str → Str      -- `StorageKeys.Safe`
  fold : Char → Char    -- canonical representative of the simple-case-folding orbit

/-- `strings.EqualFold` -/
def eqFold (E : Env) (a b : Str) : Bool := a.map E.fold == b.map E.fold

inductive CType | http01 | tlsalpn01 | dns01 | other
  deriving DecidableEq, Repr

/-- what the code uses of an `acme.Challenge` -/
structure Chal where
  typ     : CType
  isIP    : Bool          -- `Identifier.Type == "ip"`
  ident   : Str           -- `Identifier.Value`
  rev     : Option Str    -- `dns.ReverseAddr(ident)` without the final dot; `none` = error
  idnaOK  : Bool          -- `idna.ToASCII(ident)` succeeds (else no challenge certificate can be made)
  token   : Str
  keyAuth : Str
  deriving DecidableEq

/-- `challengeKey` (solvers.go) -/
def challengeKey (c : Chal) : Str :=
  if c.typ = .tlsalpn01 ∧ c.isIP = true then
    match c.rev with
    | some r => r
    | none => c.ident
  else c.ident

/-- an entry of `activeChallenges`: the challenge and whether `data` (the pre-made
challenge certificate) is set -/
structure Entry where
  chal : Chal
  hasData : Bool
  deriving DecidableEq

/-- one place per process (memory) and one shared place (storage). `active` is a ghost:
the challenges presented and not yet cleaned up, with the presenting node and prefix. -/
structure State where
  mem    : Nat → Str → Option Entry      -- node → key → entry
  store  : Str → Str → Option Chal       -- issuer prefix → sanitised key → stored challenge
  active : List (Nat × Str × Chal)

def State.empty : State := { mem := fun _ _ => none, store := fun _ _ => none, active := [] }

/-- an ACME issuer as far as storage prefixes go -/
structure Issuer where
  ca   : Str            -- prefix of the production CA
  test : Option Str     -- prefix of the test CA (`TestCA != ""`)

/-- prefix under which an order placed by this issuer keeps its tokens
(`newACMEClient(useTestCA)`: the test CA's if asked for and set) -/
def presentPrefix (i : Issuer) (useTest : Bool) : Str :=
  if useTest then (match i.test with | some t => t | none => i.ca) else i.ca

/-- prefixes searched by `getChallengeInfo`, in order (D17: the test CA's too) -/
def searchPrefixes (is : List Issuer) : List Str :=
  is.flatMap (fun i => i.ca :: (match i.test with | some t => [t] | none => []))

/-- what `getChallengeInfo` can see of an issuer that is configured through the `Issuer`
interface only (an application's type wrapping an `ACMEIssuer`): its `IssuerKey()`, hence
the production CA's prefix; the test CA is a field of the concrete type -/
def ifaceView (i : Issuer) : Issuer := { ca := i.ca, test := none }

/-- `getChallengeInfo`: `none` = error -/
def lookup (E : Env) (S : State) (n : Nat) (ps : List Str) (name : Str) : Option Entry :=
  match S.mem n name with
  | some e => some e
  | none =>
    match ps.findSome? (fun p => S.store p (E.safe name)) with
    | none => none
    | some c => if eqFold E (challengeKey c) name then some ⟨c, false⟩ else none

/-! ### HTTP-01 -/

structure HttpReq where
  method : Str
  path   : Str     -- `r.URL.Path`
  host   : Str     -- `hostOnly(r.Host)`

inductive HttpResp
  | pass                  -- the wrapped handler runs; nothing was written
  | serve (body : Str)    -- 200, body written, wrapped handler does not run
  deriving DecidableEq

def GET : Str := "GET".toList
/-- `acmeHTTPChallengeBasePath` -/
def basePath : Str := "/.well-known/acme-challenge".toList
/-- `acme.Challenge.HTTP01ResourcePath` -/
def resourcePath (c : Chal) : Str := basePath ++ '/' :: c.token

/-- `solveHTTPChallenge` -/
def solves (E : Env) (r : HttpReq) (c : Chal) : Bool :=
  r.path == resourcePath c && eqFold E r.host c.ident && r.method == GET

/-- `HTTPChallengeHandler` → `HandleHTTPChallenge` → `distributedHTTPChallengeSolver` →
`solveHTTPChallenge` -/
def httpAnswer (E : Env) (S : State) (n : Nat) (ps : List Str) (disabled : Bool) (r : HttpReq) : HttpResp :=
  if disabled then .pass
  else if r.method != GET then .pass
  else if !(basePath.isPrefixOf r.path) then .pass
  else match lookup E S n ps r.host with
    | none => .pass
    | some e => if solves E r e.chal then .serve e.chal.keyAuth else .pass

/-! ### TLS-ALPN-01 -/

structure Hello where
  sni    : Str
  protos : List Str

inductive AlpnResp
  | normal                            -- the ordinary certificate selection (C03) runs
  | fail                              -- challenge branch, error returned, no certificate
  | cert (c : Chal) (cached : Bool)   -- challenge certificate of `c` (SAN = identifier, acmeIdentifier = hash of keyAuth)
  deriving DecidableEq

/-- `acmez.ACMETLS1Protocol` -/
def acmeTLS1 : Str := "acme-tls/1".toList

/-- `GetCertificateWithContext`, first branch, and `getTLSALPNChallengeCert` -/
def alpnAnswer (E : Env) (S : State) (n : Nat) (ps : List Str) (h : Hello) : AlpnResp :=
  if h.sni ≠ [] ∧ h.protos = [acmeTLS1] then
    match lookup E S n ps h.sni with
    | none => .fail
    | some e => if e.hasData then .cert e.chal true
                else if e.chal.idnaOK then .cert e.chal false else .fail
  else .normal

/-! ### presenting and cleaning up (`solverWrapper` ∘ `distributedSolver` ∘ inner solver) -/

def upd {α : Type} (f : Str → Option α) (k : Str) (v : Option α) : Str → Option α :=
  fun x => if x = k then v else f x

def updS {α : Type} (f : Str → α) (k : Str) (v : α) : Str → α :=
  fun x => if x = k then v else f x

def updN {α : Type} (f : Nat → α) (k : Nat) (v : α) : Nat → α :=
  fun x => if x = k then v else f x

/-- does the inner solver's `Present` set `data`? (`tlsALPNSolver.Present`, when the
certificate can be made) -/
def setsData (c : Chal) : Bool := c.typ = .tlsalpn01 && c.idnaOK

inductive Ev
  | present (n : Nat) (pfx : Str) (c : Chal)
  | cleanUp (n : Nat) (pfx : Str) (c : Chal)

/-- what the calls do to the two places (no guards) -/
def apply (E : Env) (S : State) : Ev → State
  | .present n p c =>
    { mem := updN S.mem n (upd (S.mem n) (challengeKey c) (some ⟨c, setsData c⟩))
      store := updS S.store p (upd (S.store p) (E.safe (challengeKey c)) (some c))
      active := (n, p, c) :: S.active }
  | .cleanUp n p c =>
    { mem := updN S.mem n (upd (S.mem n) (challengeKey c) none)
      store := updS S.store p (upd (S.store p) (E.safe (challengeKey c)) none)
      active := S.active.erase (n, p, c) }

/-- CertMagic's name lock (C01) keeps challenges whose token files would collide from
overlapping anywhere in the cluster: no two pending challenges have the same sanitised key -/
def fresh (E : Env) (S : State) (c : Chal) : Bool :=
  S.active.all (fun a => E.safe (challengeKey a.2.2) != E.safe (challengeKey c))

/-- the labelled transition system: `acmez` calls `CleanUp` once for each `Present`, after it -/
def step (E : Env) (S : State) (e : Ev) : Option State :=
  match e with
  | .present _ _ c => if fresh E S c then some (apply E S e) else none
  | .cleanUp n p c => if (n, p, c) ∈ S.active then some (apply E S e) else none

def run (E : Env) (S : State) : List Ev → Option State
  | [] => some S
  | e :: es => match step E S e with
    | some S' => run E S' es
    | none => none

/-- reachable from the empty state -/
def Reachable (E : Env) (S : State) : Prop := ∃ es, run E State.empty es = some S

end CM.Challenge
