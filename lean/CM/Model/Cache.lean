/-
C12 — model of the certificate cache (`cache.go`) and of every write to its two maps from
`handshake.go` and `maintain.go`.

`Cache.cache      : map[hash]Certificate`  is the association list `State.cache`,
`Cache.cacheIndex : map[name][]hash`       is the association list `State.index`
(the ORDER of the hashes of one name is kept: `append` adds at the end, removal filters),
`CacheOptions.Capacity`                    is `State.cap` (0 = unlimited).

A Go map is modelled by `get?`/`put`/`erase` on association lists (`put` = erase, then cons:
the position of a key carries no meaning; the driver compares sorted renderings).

Every operation is one critical section of `Cache.mu` in the source. The random eviction
victim (`weakrand.Intn` + map iteration order) is an INPUT of the `add`/`replace` events, so
that every possible choice is covered by the theorems.

The handshake's write-back (`handshakeMaintenance`) is modelled AFTER the `fix:` patch D6:
the copy is stored only if its hash is still a key of the cache.
-/
namespace CM.Cache

abbrev Hash := String
abbrev Name := List Char
abbrev Tag := String

/-- the part of `certmagic.Certificate` the cache logic looks at; `ari` stands for the
payload that the staple/renewal-information write-backs change (observable in the harness) -/
structure Cert where
  hash : Hash
  names : List Name
  tags : List Tag
  managed : Bool
  issuer : String
  ari : Nat
  deriving DecidableEq, Repr

/-- Go's zero `Certificate{}` (what `certCache.cache[h]` yields for an absent key) -/
def zeroCert : Cert := { hash := "", names := [], tags := [], managed := false, issuer := "", ari := 0 }

/-! ### Go maps as association lists -/

def get? [DecidableEq α] (k : α) : List (α × β) → Option β
  | [] => none
  | (k', v) :: r => if k' = k then some v else get? k r

def erase [DecidableEq α] (k : α) (l : List (α × β)) : List (α × β) :=
  l.filter (fun p => decide (p.1 ≠ k))

def put [DecidableEq α] (k : α) (v : β) (l : List (α × β)) : List (α × β) :=
  (k, v) :: erase k l

def keys (l : List (α × β)) : List α := l.map (·.1)

structure State where
  cache : List (Hash × Cert)
  index : List (Name × List Hash)
  cap : Nat
  deriving Repr, DecidableEq

def init (cap : Nat) : State := { cache := [], index := [], cap := cap }

/-- `certCache.cacheIndex[name]` (nil when absent) -/
def idxGet (idx : List (Name × List Hash)) (n : Name) : List Hash := (get? n idx).getD []

def hashesOf (s : State) (n : Name) : List Hash := idxGet s.index n

/-- one iteration of the outer loop of `removeCertificate`: delete all mentions of `h`
under `n`; delete the key when nothing is left -/
def unindex (h : Hash) (idx : List (Name × List Hash)) (n : Name) : List (Name × List Hash) :=
  let l := (idxGet idx n).filter (fun x => decide (x ≠ h))
  if l = [] then erase n idx else put n l idx

/-- `removeCertificate(cert)` -/
def removeCert (c : Cert) (s : State) : State :=
  { s with index := c.names.foldl (unindex c.hash) s.index, cache := erase c.hash s.cache }

/-- one iteration of the index update of `unsyncedCacheCertificate` -/
def addIndex (h : Hash) (idx : List (Name × List Hash)) (n : Name) : List (Name × List Hash) :=
  put n (idxGet idx n ++ [h]) idx

/-- the tail of `unsyncedCacheCertificate`: store the certificate and index its names -/
def insertNew (c : Cert) (s : State) : State :=
  { s with cache := put c.hash c s.cache, index := c.names.foldl (addIndex c.hash) s.index }

/-- the tag loop of `unsyncedCacheCertificate` (issue #211) -/
def mergeTags (old new : List Tag) : List Tag :=
  new.foldl (fun ts t => if t ∈ ts then ts else ts ++ [t]) old

def atCapacity (s : State) : Bool := decide (s.cap > 0) && decide (s.cache.length ≥ s.cap)

/-- `unsyncedCacheCertificate(cert)`; `victim` = hash of the randomly evicted certificate
(must be given exactly when the cache is at capacity and the certificate is new) -/
def addCert (c : Cert) (victim : Option Hash) (s : State) : Option State :=
  match get? c.hash s.cache with
  | some e =>
    match victim with
    | some _ => none
    | none =>
      if c.tags = [] then some s
      else some { s with cache := put c.hash { e with tags := mergeTags e.tags c.tags } s.cache }
  | none =>
    if atCapacity s then
      match victim with
      | none => none
      | some v =>
        match get? v s.cache with
        | none => none
        | some vc => some (insertNew c (removeCert vc s))
    else
      match victim with
      | some _ => none
      | none => some (insertNew c s)

/-- `Cache.Remove(hashes)`: `cert := cache[h]; removeCertificate(cert)` for each -/
def removeHashes (hs : List Hash) (s : State) : State :=
  hs.foldl (fun s h => removeCert ((get? h s.cache).getD zeroCert) s) s

/-- `getAllMatchingCerts(subject)` -/
def matching (s : State) (n : Name) : List Cert :=
  (hashesOf s n).map (fun h => (get? h s.cache).getD zeroCert)

/-- the delete queue of `RemoveManaged` for one subject -/
def managedQueue (s : State) (subj : Name × String) : List Hash :=
  ((matching s subj.1).filter (fun c => c.managed && (subj.2 = "" || c.issuer = subj.2))).map (·.hash)

/-- `Cache.RemoveManaged(subjects)` -/
def removeManaged (subjects : List (Name × String)) (s : State) : State :=
  removeHashes (subjects.flatMap (managedQueue s)) s

/-- a caller's copy `c` is consistent with the cache: if its hash is cached, the cached
certificate has the same names (names are a function of the chain, hence of the hash) -/
def agrees (s : State) (c : Cert) : Bool :=
  match get? c.hash s.cache with
  | some e => decide (e.names = c.names)
  | none => true

/-- guarded read-modify-write of `updateOCSPStaples` / `updateARI` (maintain.go) -/
def ariWriteBack (h : Hash) (stamp : Nat) (s : State) : State :=
  match get? h s.cache with
  | some e => { s with cache := put h { e with ari := stamp } s.cache }
  | none => s

/-- write-back of the handshake's copy (`handshakeMaintenance`), guarded (fix D6) -/
def hsWriteBack (c : Cert) (s : State) : State :=
  match get? c.hash s.cache with
  | some _ => { s with cache := put c.hash c s.cache }
  | none => s

/-- the write-back as it was before the fix (kept to state what was wrong) -/
def hsWriteBackUnguarded (c : Cert) (s : State) : State :=
  { s with cache := put c.hash c s.cache }

inductive Ev
  | add (c : Cert) (victim : Option Hash)            -- cacheCertificate / CacheUnmanaged… / CacheManagedCertificate
  | remove (hs : List Hash)                          -- Cache.Remove
  | removeManaged (subjects : List (Name × String))  -- Cache.RemoveManaged
  | replace (old new : Cert) (victim : Option Hash)  -- replaceCertificate
  | removeCopy (c : Cert)                            -- mu.Lock(); removeCertificate(copy) (renewDynamicCertificate, forceRenew, queueRenewalTask)
  | ariWB (h : Hash) (stamp : Nat)                   -- guarded write-backs of maintain.go
  | hsWB (c : Cert)                                  -- the handshake's write-back
  deriving Repr

/-- one critical section. `none` = the event is not a behaviour of the code (a certificate
with an empty hash, a caller's copy whose names contradict the cached ones, a wrong victim) -/
def step (s : State) : Ev → Option State
  | .add c v => if c.hash = "" then none else addCert c v s
  | .remove hs => some (removeHashes hs s)
  | .removeManaged subjects => some (removeManaged subjects s)
  | .replace old new v =>
    if new.hash = "" then none else if agrees s old then addCert new v (removeCert old s) else none
  | .removeCopy c => if agrees s c then some (removeCert c s) else none
  | .ariWB h stamp => some (ariWriteBack h stamp s)
  | .hsWB c => if agrees s c then some (hsWriteBack c s) else none

/-- a finite history -/
def run (s : State) : List Ev → Option State
  | [] => some s
  | e :: es => match step s e with
    | some s' => run s' es
    | none => none

/-! ### the invariant, as a proposition and as an executable check -/

structure Inv (s : State) : Prop where
  /-- no hash is stored twice -/
  nodupC : (keys s.cache).Nodup
  nodupI : (keys s.index).Nodup
  /-- keys are the hashes of their certificates, and never the empty string -/
  keyHash : ∀ h c, get? h s.cache = some c → c.hash = h ∧ h ≠ ""
  /-- index and cache agree in both directions, with multiplicity: `h` is listed under `n`
  exactly as often as `n` occurs among the names of the cached certificate `h` (0 if `h`
  is not cached) -/
  agree : ∀ n h, (hashesOf s n).count h =
    match get? h s.cache with
    | some c => c.names.count n
    | none => 0
  /-- no index key with an empty list (removal deletes the key) -/
  noEmpty : ∀ n l, get? n s.index = some l → l ≠ []
  /-- within capacity -/
  capOK : s.cap > 0 → s.cache.length ≤ s.cap

def dedup [DecidableEq α] : List α → List α
  | [] => []
  | a :: r => if a ∈ r then dedup r else a :: dedup r

def nodupB [DecidableEq α] : List α → Bool
  | [] => true
  | a :: r => !(decide (a ∈ r)) && nodupB r

/-- executable form of `Inv`: `none` = holds, `some reason` = the first part that fails.
The quantifiers of `agree` range over the names and hashes that occur in the state. -/
def invCheck (s : State) : Option String :=
  let names := keys s.index ++ s.cache.flatMap (fun p => p.2.names)
  let hashes := keys s.cache ++ s.index.flatMap (fun p => p.2)
  if !nodupB (keys s.cache) then some "duplicate-hash"
  else if !nodupB (keys s.index) then some "duplicate-index-key"
  else if s.cache.any (fun p => decide (p.2.hash ≠ p.1) || decide (p.1 = "")) then some "key-not-hash"
  else if s.index.any (fun p => decide (p.2 = [])) then some "empty-index-entry"
  else if decide (s.cap > 0) && decide (s.cache.length > s.cap) then some "over-capacity"
  else if hashes.any (fun h => (get? h s.cache).isNone && names.any (fun n => decide ((hashesOf s n).count h ≠ 0)))
    then some "index-mentions-uncached-hash"
  else if s.cache.any (fun p => p.2.names.any (fun n => decide ((hashesOf s n).count p.1 < p.2.names.count n)))
    then some "cached-cert-not-indexed"
  else if s.cache.any (fun p => names.any (fun n => decide ((hashesOf s n).count p.1 > p.2.names.count n)))
    then some "index-lists-cert-under-foreign-name"
  else none

end CM.Cache
