/-
C11 — model of `KeyBuilder.Safe` (storage.go) and of the key / path builders that use it.

Written after the code (after the `fix:` commit that moved the `..` strip to the end):

    str = strings.ToLower(str)
    str = strings.TrimSpace(str)
    str = strings.NewReplacer(" ","_", "+","_plus_", "*","wildcard_", ":","-").Replace(str)
    str = safeKeyRE.ReplaceAllLiteralString(str, "")        // [^\w@.-]
    return strings.ReplaceAll(str, "..", "")

Strings are lists of Unicode scalars (what `[]rune(s)` gives in Go). Unicode lower-casing
and the Unicode white-space class are *parameters* (`Env`): the facts the proofs need
about them are explicit hypotheses (`Env.Good`), validated over every code point by the
harness on each run.
-/
namespace CM.Safe

abbrev Str := List Char

structure Env where
  lower   : Char → Char
  isSpace : Char → Bool

def isUpperA (c : Char) : Bool := decide ('A' ≤ c) && decide (c ≤ 'Z')
def isLowerA (c : Char) : Bool := decide ('a' ≤ c) && decide (c ≤ 'z')
def isDigitA (c : Char) : Bool := decide ('0' ≤ c) && decide (c ≤ '9')

/-- `\w` of Go's regexp (RE2): ASCII only -/
def isWord (c : Char) : Bool := isLowerA c || isUpperA c || isDigitA c || c == '_'

/-- complement of the class of `safeKeyRE = [^\w@.-]` -/
def keep (c : Char) : Bool := isWord c || c == '@' || c == '.' || c == '-'

/-- `strings.TrimSpace` -/
def trim (sp : Char → Bool) (s : Str) : Str :=
  ((s.dropWhile sp).reverse.dropWhile sp).reverse

/-- the replacer's pairs, in argument order (all `old` strings are single characters, so
the generic replacer is a character-wise substitution) -/
def pairs : List (Char × String) :=
  [(' ', "_"), ('+', "_plus_"), ('*', "wildcard_"), (':', "-")]

def replC (c : Char) : Str :=
  match pairs.lookup c with
  | some n => n.toList
  | none => [c]

def repl (s : Str) : Str := s.flatMap replC

def filt (s : Str) : Str := s.filter keep

/-- `strings.ReplaceAll(s, "..", "")`: left-to-right, non-overlapping -/
def stripDD : Str → Str
  | [] => []
  | [c] => [c]
  | c :: d :: r => if c = '.' ∧ d = '.' then stripDD r else c :: stripDD (d :: r)

def safe (E : Env) (s : Str) : Str :=
  stripDD (filt (repl (trim E.isSpace (s.map E.lower))))

/-- what the proofs assume about Unicode lower-casing / white space (validated by the
harness over all code points) -/
structure Env.Good (E : Env) : Prop where
  lower_not_upper : ∀ c, isUpperA (E.lower c) = false
  lower_fix       : ∀ c, keep c = true → isUpperA c = false → E.lower c = c
  keep_not_space  : ∀ c, keep c = true → E.isSpace c = false

/-! ### paths: `path.Join` / `path.Clean` on component lists -/

/-- split at '/' -/
def splitSlash : Str → List Str
  | [] => [[]]
  | c :: cs =>
    if c = '/' then [] :: splitSlash cs
    else match splitSlash cs with
      | [] => [[c]]          -- unreachable (splitSlash never returns [])
      | h :: t => (c :: h) :: t

def dot : Str := ['.']
def dotdot : Str := ['.', '.']

/-- one step of the lexical clean of a *relative or rooted* path given as a stack of
components (top = last). `rooted` = the path starts at "/" (then `..` at the root is dropped) -/
def pushComp (rooted : Bool) (stack : List Str) (c : Str) : List Str :=
  if c = [] ∨ c = dot then stack
  else if c = dotdot then
    match stack.reverse with
    | [] => if rooted then [] else [dotdot]
    | top :: rest => if top = dotdot then stack ++ [dotdot] else rest.reverse
  else stack ++ [c]

def cleanComps (rooted : Bool) (cs : List Str) : List Str :=
  cs.foldl (pushComp rooted) []

/-- `path.Join` of two already-clean relative component lists with a raw element -/
def joinRaw (base : List Str) (elem : Str) : List Str :=
  (splitSlash elem).foldl (pushComp false) base

def str (s : String) : Str := s.toList

def prefixCerts : Str := str "certificates"
def prefixOCSP : Str := str "ocsp"
def prefixACME : Str := str "acme"

def certsPrefix (E : Env) (issuer : Str) : List Str :=
  joinRaw [prefixCerts] (safe E issuer)

def certsSitePrefix (E : Env) (issuer domain : Str) : List Str :=
  joinRaw (certsPrefix E issuer) (safe E domain)

def siteAsset (E : Env) (ext : String) (issuer domain : Str) : List Str :=
  joinRaw (certsSitePrefix E issuer domain) (safe E domain ++ str ext)

def siteCert (E : Env) := siteAsset E ".crt"
def siteKey (E : Env) := siteAsset E ".key"
def siteMeta (E : Env) := siteAsset E ".json"

/-- `FileStorage.lockFilename` relative to the storage root -/
def lockFile (E : Env) (name : Str) : List Str :=
  joinRaw [str "locks"] (safe E name ++ str ".lock")

/-- `FileStorage.Filename`: root components followed by the key's, cleaned together -/
def filename (root : List Str) (key : List Str) : List Str :=
  key.foldl (pushComp true) root

def showPath (cs : List Str) : String :=
  if cs = [] then "." else String.intercalate "/" (cs.map String.ofList)

end CM.Safe
