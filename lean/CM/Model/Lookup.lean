import CM.Model.Cache
/-
C03 — model of the certificate lookup of a TLS handshake without on-demand TLS:
`getCertDuringHandshake` (OnDemand == nil) → `getCertificateFromCache` → `selectCert` →
`DefaultCertificateSelector` (handshake.go), `MatchWildcard`, `SubjectQualifiesForCert`
(certificates.go), on top of the cache model of C12 (`CM.Cache.State`).

Names are lists of characters, already normalised by `normalizedName` (the driver applies
`normASCII` below to ASCII input and takes Go's result for non-ASCII input). What the real
`hello.SupportsCertificate`, `idna.Lookup.ToASCII` and the storage contain are INPUTS.

`getCert` is modelled AFTER the `fix:` patch D3: when the cache is almost full and nothing
could be loaded from storage, control falls through to the default/fallback certificate or
the "no certificate available" error (instead of returning an empty certificate with a nil
error).
-/
namespace CM.Lookup
open CM.Cache

/-! ### labels -/

/-- `strings.Split(name, ".")` -/
def splitDot : List Char → List (List Char)
  | [] => [[]]
  | c :: r =>
    if c = '.' then [] :: splitDot r
    else match splitDot r with
      | [] => [[c]]
      | l :: ls => (c :: l) :: ls

/-- `strings.Join(labels, ".")` -/
def joinDot : List (List Char) → List Char
  | [] => []
  | l :: r => match r with
    | [] => l
    | _ :: _ => l ++ '.' :: joinDot r

def star : List Char := ['*']

/-- the wildcard loop of `getCertificateFromCache` / `AllMatchingCertificates`:
`for i := range labels { labels[i] = "*"; candidate := strings.Join(labels, ".") … }`;
`pre` = the labels already replaced -/
def candLoop (pre : List (List Char)) : List (List Char) → List Name
  | [] => []
  | _ :: rest => joinDot (pre ++ star :: rest) :: candLoop (pre ++ [star]) rest

def candidates (n : Name) : List Name := candLoop [] (splitDot n)

/-- `n` with its leftmost `k` labels replaced by `*` -/
def wildAt (n : Name) (k : Nat) : Name := joinDot (List.replicate k star ++ (splitDot n).drop k)

/-- the reference relation of the statement: the names cover `n` exactly, or by replacing its
leftmost label(s) with a wildcard -/
def covers (n : Name) (names : List Name) : Prop :=
  n ∈ names ∨ ∃ k, 1 ≤ k ∧ k ≤ (splitDot n).length ∧ wildAt n k ∈ names

/-- `MatchWildcard(subject, wildcard)` on lower-case input -/
def mwLoop (w : Name) (pre : List (List Char)) : List (List Char) → Bool
  | [] => false
  | l :: rest =>
    if l = [] then mwLoop w (pre ++ [l]) rest        -- `continue // invalid label`
    else if joinDot (pre ++ star :: rest) = w then true
    else mwLoop w (pre ++ [star]) rest

def matchWildcard (subject wildcard : Name) : Bool :=
  if subject = wildcard then true
  else if '*' ∉ wildcard then false
  else mwLoop wildcard [] (splitDot subject)

/-! ### selection -/

/-- what the selection looks at besides the cache: per certificate (by hash) whether the
client supports it (`hello.SupportsCertificate(cert) == nil`), its validity, whether the
`tls.Certificate` is complete (non-empty chain and a private key); and the current time -/
structure View where
  supported : Bool
  nb : Int
  na : Int
  complete : Bool

structure Env where
  now : Int
  view : Hash → View

def sec : Int := 1000000000

/-- `expiresAt`: NotAfter truncated to the second plus one second -/
def expiresAt (na : Int) : Int := na / sec * sec + sec

/-- `now.After(choice.Leaf.NotBefore) && now.Before(expiresAt(choice.Leaf))` -/
def Env.valid (e : Env) (c : Cert) : Bool :=
  decide (e.now > (e.view c.hash).nb) && decide (e.now < expiresAt (e.view c.hash).na)

def Env.good (e : Env) (c : Cert) : Bool := (e.view c.hash).supported && e.valid c

/-- the loop of `DefaultCertificateSelector` with its `best` variable -/
def scan (e : Env) : List Cert → Cert → Cert
  | [], best => best
  | c :: r, best =>
    if (e.view c.hash).supported then
      if e.valid c then c else scan e r c
    else scan e r best

/-- `DefaultCertificateSelector` (`none` = its error "no certificates available") -/
def selectDefault (e : Env) : List Cert → Option Cert
  | [] => none
  | c :: r => match r with
    | [] => some c                      -- fast path: a single choice
    | _ :: _ => some (scan e (c :: r) c)

/-- `selectCert(hello, name)` with `cfg.CertSelection == nil` -/
def selectCert (e : Env) (s : State) (n : Name) : Option Cert := selectDefault e (matching s n)

def tryName (e : Env) (s : State) : Option Name → Option Cert
  | none => none
  | some n => selectCert e s n

/-- exact name first, then the wildcard candidates from left to right -/
def firstMatch (e : Env) (s : State) : List Name → Option Cert
  | [] => none
  | n :: r => match selectCert e s n with
    | some c => some c
    | none => firstMatch e s r

structure Cfg where
  /-- `normalizedName(cfg.DefaultServerName)`, `none` if the option is "" -/
  defaultName : Option Name
  /-- `normalizedName(cfg.FallbackServerName)`, `none` if the option is "" -/
  fallbackName : Option Name

structure Hello where
  /-- `normalizedName(hello.ServerName)` -/
  sni : Name
  /-- `localIPFromConn(hello.Conn)`; `none` = nil Conn -/
  conn : Option Name

inductive How | matched | defaulted
  deriving DecidableEq, Repr

/-- `getCertificateFromCache` -/
def fromCache (e : Env) (cfg : Cfg) (s : State) (h : Hello) : Option (Cert × How) :=
  if h.sni = [] then
    match tryName e s h.conn with
    | some c => some (c, .matched)
    | none =>
      match tryName e s cfg.defaultName with
      | some c => some (c, .defaulted)
      | none => (tryName e s cfg.fallbackName).map (·, How.defaulted)
  else
    match firstMatch e s (h.sni :: candidates h.sni) with
    | some c => some (c, .matched)
    | none => (tryName e s cfg.fallbackName).map (·, How.defaulted)

/-! ### the rest of `getCertDuringHandshake` without on-demand TLS -/

/-- `unicode.IsSpace` -/
def isSpace (c : Char) : Bool :=
  let n := c.toNat
  n = 9 || n = 10 || n = 11 || n = 12 || n = 13 || n = 32 || n = 0x85 || n = 0xA0 || n = 0x1680 ||
  (decide (0x2000 ≤ n) && decide (n ≤ 0x200a)) || n = 0x2028 || n = 0x2029 || n = 0x202f || n = 0x205f || n = 0x3000

/-- the characters `SubjectQualifiesForCert` forbids (tied to the source by CM/Tie/C03) -/
def forbidden : List Char := "()[]{}<> \t\n\"\\!@#$%^&|;'+=".toList

/-- `SubjectQualifiesForCert` -/
def qualifies (n : Name) : Bool :=
  n.any (fun c => !isSpace c) &&
  n.head? != some '.' && n.getLast? != some '.' &&
  (!n.contains '*' || n.take 2 == ['*', '.'] || n == ['*']) &&
  n.all (fun c => !forbidden.contains c)

structure Req where
  /-- `idna.Lookup.ToASCII(strings.TrimSpace(hello.ServerName))`; `none` = error -/
  idna : Option Name
  /-- managed bundles in storage, by the name they are stored under -/
  stored : List (Name × Cert)

/-- `getNameFromClientHello` -/
def requestName (cfg : Cfg) (h : Hello) (r : Req) : Option Name :=
  r.idna.map fun nm =>
    if nm ≠ [] then nm
    else match cfg.defaultName with
      | some d => d
      | none => h.conn.getD []

/-- the "almost full" test; `0.9` is `almostNum / almostDen` (tied by CM/Tie/C03).
`float64(size) >= float64(capacity)*.9` equals the exact comparison for every capacity
below 2^50 (the product rounds to the exact value whenever that is an integer). -/
def almostNum : Nat := 9
def almostDen : Nat := 10
def almostFull (s : State) : Bool :=
  decide (s.cap > 0) && decide (s.cache.length * almostDen ≥ s.cap * almostNum)

/-- `labels[0] = "*"` of `loadCertFromStorage` -/
def wildFirst (n : Name) : Name := joinDot (star :: (splitDot n).drop 1)

/-- `loadCertFromStorage`: the bundle stored under the name, else under its wildcard form -/
def loadStored (st : List (Name × Cert)) (n : Name) : Option Cert :=
  match get? n st with
  | some c => some c
  | none => get? (wildFirst n) st

inductive Ans
  | err
  | ok (c : Cert)
  deriving DecidableEq, Repr

/-- after the cache did not match: name checks, the almost-full load from storage, then
(fix D3) the default/fallback certificate `dflt` or the error -/
def afterMiss (cfg : Cfg) (s : State) (h : Hello) (r : Req) (dflt : Option Cert) : Ans :=
  match requestName cfg h r with
  | none => .err
  | some name =>
    if !qualifies name then .err
    else
      match (if almostFull s then loadStored r.stored name else none) with
      | some c => .ok c
      | none =>
        match dflt with
        | some c => .ok c
        | none => .err

/-- `getCertDuringHandshake` with `cfg.OnDemand == nil` -/
def getCert (e : Env) (cfg : Cfg) (s : State) (h : Hello) (r : Req) : Ans :=
  match fromCache e cfg s h with
  | some (c, .matched) => .ok c
  | some (c, .defaulted) => afterMiss cfg s h r (some c)
  | none => afterMiss cfg s h r none

/-! ### `normalizedName` on ASCII -/

def lowerASCII (c : Char) : Char := if 'A' ≤ c ∧ c ≤ 'Z' then Char.ofNat (c.toNat + 32) else c

def normASCII (n : List Char) : List Char :=
  (((n.dropWhile isSpace).reverse.dropWhile isSpace).reverse).map lowerASCII

end CM.Lookup
