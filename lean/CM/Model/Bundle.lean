/-
C06 / C07 — the certificate bundle of ONE subject in storage: three independent keys per
issuer (`.key`, `.crt`, `.json`), written key → cert → mta by `saveCertResource` through
`storeTx` (crypto.go, storage.go), read key → cert → mta by `loadCertResource`.

Private keys and public keys are abstract identifiers (`KeyId`): "the stored key matches
the leaf" is `key = crt.pub`. That identifiers correspond to real keys is checked per
sample by the Go-side oracles of the harness. Fresh keys come from a counter.

Written after: `obtainCert`, `renewCert`, `reusePrivateKey`, `saveCertResource`,
`loadCertResource(AnyIssuer)`, `storageHasCertResources`, `manageOne` (config.go,
crypto.go), `storeTx` (storage.go, after the `fix:` commit that restores replaced values on
roll-back), `forceRenew` + `moveCompromisedPrivateKey` (maintain.go).
-/
namespace CM.Bundle

abbrev KeyId := Nat

/-- a certificate: the public key it certifies, a serial (= version), its NotBefore -/
structure Crt where
  pub : KeyId
  ser : Nat
  nb  : Nat
  deriving DecidableEq, Repr

/-- the three keys of the bundle under one issuer, plus the quarantine file -/
structure Slots where
  key  : Option KeyId
  crt  : Option Crt
  mta : Option Nat            -- serial of the certificate the metadata describes
  compromised : Option KeyId   -- `<name>.key.compromised`
  deriving DecidableEq, Repr

def Slots.empty : Slots := { key := none, crt := none, mta := none, compromised := none }

inductive Part | key | crt | mta
  deriving DecidableEq, Repr

/-- `storageHasCertResources`: all three keys exist -/
def hasAll (s : Slots) : Bool := s.crt.isSome && s.key.isSome && s.mta.isSome

inductive LoadRes
  | ok (key : KeyId) (crt : Crt)
  | notexist                     -- some key is missing (fs.ErrNotExist)
  | mismatch                     -- all three exist but the key is not the leaf's (tls.X509KeyPair error)
  deriving DecidableEq, Repr

/-- `loadCertResource` + `makeCertificate`: key, then cert, then metadata; then pair them -/
def load (s : Slots) : LoadRes :=
  match s.key with
  | none => .notexist
  | some k =>
    match s.crt with
    | none => .notexist
    | some c =>
      match s.mta with
      | none => .notexist
      | some _ => if k = c.pub then .ok k c else .mismatch

/-- a write of `storeTx` -/
inductive W
  | key (k : KeyId) | crt (c : Crt) | mta (n : Nat)
  deriving DecidableEq, Repr

def applyW (s : Slots) : W → Slots
  | .key k => { s with key := some k }
  | .crt c => { s with crt := some c }
  | .mta n => { s with mta := some n }

/-- `saveCertResource`'s transaction: key, certificate, metadata — in this order -/
def saveWrites (k : KeyId) (c : Crt) : List W := [.key k, .crt c, .mta c.ser]

/-- the first `j` writes reached storage (process death after the j-th store) -/
def applyFirst (j : Nat) (ws : List W) (s : Slots) : Slots := (ws.take j).foldl applyW s

/-- put one slot back to what `old` held -/
def restoreW (old : Slots) (s : Slots) : W → Slots
  | .key _ => { s with key := old.key }
  | .crt _ => { s with crt := old.crt }
  | .mta _ => { s with mta := old.mta }

/-- `storeTx` when its `i`-th store fails (0-based): the earlier writes were applied and are
then rolled back to the remembered previous values (or deleted if there was none) -/
def storeTxFailAt (i : Nat) (ws : List W) (s : Slots) : Slots :=
  (ws.take i).reverse.foldl (restoreW s) (applyFirst i ws s)

structure Env where
  reuse : Bool        -- Config.ReusePrivateKeys
  fresh : KeyId       -- the key the generator would return now
  ser   : Nat         -- serial the issuer would use now
  now   : Nat         -- NotBefore the issuer would use now

/-- the key `obtainCert` uses: the stored one when reuse is on and one is stored, else fresh -/
def obtainKey (e : Env) (s : Slots) : KeyId :=
  if e.reuse then (match s.key with | some k => k | none => e.fresh) else e.fresh

/-- `obtainCert` with a successful issuer and no fault: no-op when everything exists -/
def obtain (e : Env) (s : Slots) : Slots :=
  if hasAll s then s
  else
    let k := obtainKey e s
    applyFirst 3 (saveWrites k { pub := k, ser := e.ser, nb := e.now }) s

/-- the key `renewCert` uses (it has loaded the bundle: `old` is the stored key) -/
def renewKey (e : Env) (old : KeyId) : KeyId := if e.reuse then old else e.fresh

/-- `renewCert` (forced or due) with a successful issuer and no fault -/
def renew (e : Env) (s : Slots) : Option Slots :=
  match load s with
  | .ok old _ =>
    let k := renewKey e old
    some (applyFirst 3 (saveWrites k { pub := k, ser := e.ser, nb := e.now }) s)
  | _ => none    -- nothing (usable) to renew: error

/-- `manageOne` on a fresh instance: load, obtain only if absent; a load error that is not
not-exist is returned to the caller (and stays) -/
def recover (e : Env) (s : Slots) : Slots :=
  match load s with
  | .ok _ _ => s
  | .notexist => obtain e s
  | .mismatch => s

/-- storage ends up serving a certificate with a matching key -/
def usable (s : Slots) : Bool :=
  match load s with
  | .ok _ _ => true
  | _ => false

/-- `moveCompromisedPrivateKey` (no fault): copy to `.compromised`, delete the key -/
def quarantine (s : Slots) : Slots :=
  match s.key with
  | some k => { s with compromised := some k, key := none }
  | none => s

/-- with several issuers: the compromised key is quarantined wherever it is stored (after the
`fix:` commit; it used to be quarantined only under the revoked certificate's issuer, so
another issuer's bundle holding the same reused key was adopted as the "replacement") -/
def quarantineAll (k : KeyId) (l : List Slots) : List Slots :=
  l.map (fun s => if s.key = some k then { s with compromised := some k, key := none } else s)

/-- `forceRenew` for a certificate revoked for key compromise: quarantine, then obtain -/
def replaceCompromised (e : Env) (s : Slots) : Slots := obtain e (quarantine s)

/-- `loadCertResourceAnyIssuer` over several issuers' slots: among the loadable ones the
one with the latest NotBefore (first such in configuration order on ties, as `sort.Slice`
on a short list keeps… the harness checks ties separately) -/
def newest : List Slots → Option Crt
  | [] => none
  | s :: rest =>
    match load s, newest rest with
    | .ok _ c, some d => if d.nb > c.nb then some d else some c
    | .ok _ c, none => some c
    | _, r => r

/-! expected storage-call sequences (kind + part), compared verbatim with the real code's
log by the harness: this is the operation-sequence correspondence of C07 -/

inductive Call
  | exists (p : Part) | load (p : Part) | store (p : Part) | delete (p : Part) | lock | unlock
  deriving DecidableEq, Repr

/-- `storageHasCertResources`: crt && key && mta, short-circuit -/
def existsCalls (s : Slots) : List Call :=
  if s.crt.isNone then [.exists .crt]
  else if s.key.isNone then [.exists .crt, .exists .key]
  else [.exists .crt, .exists .key, .exists .mta]

/-- `loadCertResource`: key, crt, mta; stops at the first missing one -/
def loadCalls (s : Slots) : List Call :=
  if s.key.isNone then [.load .key]
  else if s.crt.isNone then [.load .key, .load .crt]
  else [.load .key, .load .crt, .load .mta]

def txCalls : List Call :=
  [.load .key, .load .crt, .load .mta, .store .key, .store .crt, .store .mta]

def obtainCalls (e : Env) (s : Slots) : List Call :=
  if hasAll s then existsCalls s
  else existsCalls s ++ [.lock] ++ existsCalls s ++ (if e.reuse then [.load .key] else []) ++ txCalls ++ [.unlock]

def renewCalls (s : Slots) : List Call :=
  [.lock] ++ loadCalls s ++ (match load s with | .ok _ _ => txCalls | _ => []) ++ [.unlock]

end CM.Bundle
