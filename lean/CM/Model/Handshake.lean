import CM.Lib.Prog
/-
One TLS handshake of certmagic as an effect program (C02, shared with C13), written after
handshake.go WITH the three repairs D5, D9, D3b applied:

  GetCertificateWithContext → getCertDuringHandshake(load = true)        `getCert`
  getCertDuringHandshake(load = false)  (re-entry after a wait)          `reentry`
  optionalMaintenance, loadCertFromStorage, obtainOnDemandCertificate,
  handshakeMaintenance (+ its closure renewIfNecessary and the ARI goroutine),
  renewDynamicCertificate (+ its closure renewAndReload, foreground or goroutine),
  checkIfCertShouldBeObtained, obtainCert / renewCert / forceRenew (config.go, maintain.go)
  reduced to their storage / issuer calls, SubjectQualifiesForCert (certificates.go).

Every call to a double and every read of shared in-process state is an effect with a
Boolean response. What is abstracted:
 * the name: the program depends on the handshake's name only through `Facts`
   (IDNA conversion succeeded, the name qualifies syntactically, allow-list verdict);
   effects carry a tag saying which name they concern (`Nm`);
 * a re-entry `getCertDuringHandshake(ctx, hello, false)` is the one effect `reenter`
   (did it return a certificate?); the code it runs is the separate program `reentry`.
   Re-entries occur only after a wait and perform no load/issue themselves; the gating
   flag is *reset* by a `reenter` event, so nothing after it may rely on an earlier permit;
 * retries of the non-interactive obtain/renew (`doWithRetry`) are cut at `maxAttempts`
   attempts — as many as fit into the longest worker time-out (tie: C13 constants);
 * OCSP staple refresh inside handshakeMaintenance is left out (no certificate load or
   issuer call); certificate parsing errors are folded into "load failed".
-/
namespace CM.Handshake
open CM.Prog

/-- which name an effect concerns -/
inductive Nm
  | hello   -- the (normalised) server name of this handshake
  | wild    -- the same with its left-most label replaced by `*`
  | cert0   -- `cert.Names[0]` of the certificate being maintained
  deriving DecidableEq, Repr

inductive Eff
  -- in-process state the handshake reads (invisible to the doubles)
  | cacheHit | cacheDefault | managed | needsRenewal | timeLeftPos | revoked | keyCompromise | ariDue
  | storedDue                      -- renewCert's re-check of the stored bundle
  | loadChan | obtainChan          -- is there an entry in certLoadWaitChans / obtainCertWaitChans ?
  | waitLoad | waitObtain          -- select: true = channel closed, false = time-out / cancelled
  | retry                          -- doWithRetry: another attempt before the deadline?
  | reenter                        -- getCertDuringHandshake(load=false): returned a certificate?
  -- calls to the doubles
  | mgrErr | mgrCert               -- OnDemand.Managers: returned an error? a certificate?
  | gate                           -- DecisionFunc(name): true = permit
  | allow (v : Bool)               -- a policy decision taken without the decision function, verdict v
  | load (n : Nm) | loadNX (n : Nm)  -- load the bundle: found? ; if not: was the error not-exist?
  | has (n : Nm)                   -- storageHasCertResourcesAnyIssuer
  | lock                           -- acquireLock(issue_cert_…): acquired?
  | issue (n : Nm)                 -- Issuer.Issue: ok?
  | save                           -- saveCertResource: ok?
  | ariMeta                         -- ARI refresh (lock, metadata load/store, no certificate material)
  -- single-flight book-keeping and cache mutation (no response)
  | regLoad | unregLoad | regObtain | unblockObtain | removeFromCache
  | fresh                          -- from here on the certificate in hand is the one just obtained
  deriving DecidableEq, Repr

/-- configuration class -/
structure Cfg where
  onDemand : Bool      -- cfg.OnDemand != nil
  func : Bool          -- OnDemand.DecisionFunc != nil (else: the implicit allow-list)
  managers : Bool      -- len(OnDemand.Managers) > 0
  almostFull : Bool    -- capacity > 0 ∧ size ≥ 0.9·capacity
  ari : Bool           -- !DisableARI
  deriving DecidableEq, Repr

/-- what the program needs to know about the handshake's name -/
structure Facts where
  idnaOK : Bool        -- getNameFromClientHello succeeded
  qualifies : Bool     -- SubjectQualifiesForCert(name)
  allow : Bool         -- allow-list empty, or it contains the name (DESIGN §9)
  deriving DecidableEq, Repr

/-- result classes of a handshake -/
inductive Res
  | cur      -- the certificate found in the cache / loaded from storage
  | new      -- a certificate obtained or renewed by this handshake
  | mgr      -- a certificate from an external manager
  | dflt     -- default / fallback certificate
  | re       -- whatever the re-entry returned (a certificate)
  | empty    -- empty certificate with a nil error (never produced by the repaired code; kept as a class the harness can report)
  | err      -- an error
  | none     -- (internal) loadCertFromStorage did not load anything
  deriving DecidableEq, Repr

def Res.enc : Res → Nat
  | .cur => 0 | .new => 1 | .mgr => 2 | .dflt => 3 | .re => 4 | .empty => 5 | .err => 6 | .none => 7
def Res.dec (n : Nat) : Res :=
  if n = 0 then .cur else if n = 1 then .new else if n = 2 then .mgr else if n = 3 then .dflt
  else if n = 4 then .re else if n = 5 then .empty else if n = 6 then .err else .none

instance : Code Res := ⟨Res.enc, Res.dec, fun a => by cases a <;> rfl, fun a => by cases a <;> decide,
  fun a f => f a, fun _ _ => rfl⟩

abbrev P := TProg Eff

def static (v : Bool) : P Bool := do act (.allow v); return v

/-- `checkIfCertShouldBeObtained(ctx, name, requireOnDemand)`; true = nil error -/
def gateCheck (c : Cfg) (f : Facts) (requireOD : Bool) : P Bool :=
  if requireOD && !c.onDemand then static false
  else if !f.qualifies then static false
  else if !c.onDemand then static true
  else if c.func then ask .gate
  else static f.allow

def reenter : P Res := do
  if ← ask .reenter then return .re else return .err

/-- attempts of one non-interactive operation that fit before the worker's deadline -/
def maxAttempts : Nat := 4

/-- `saveCertResource` → `storeTx`: reads the values about to be replaced (to be able to roll
back), then stores key, certificate and metadata; true = nil error -/
def saveBundle (nm : Nm) : P Bool := do
  if !(← ask (.load nm)) then
    if !(← ask (.loadNX nm)) then return false   -- reading the previous values failed
  ask .save

/-- one run of the closure `f` of obtainCert; true = nil error -/
def obtainOnce (nm : Nm) : P Bool := do
  if ← ask (.has nm) then return true          -- obtained meanwhile by somebody else
  if ← ask (.issue nm) then
    if ← call (saveBundle nm) then return true
  return false

/-- `doWithRetry(f)`: at most `n` attempts -/
def retrying (once : P Bool) : Nat → P Bool
  | 0 => pure false
  | n + 1 => do
    if ← call once then return true
    if ← ask .retry then call (retrying once n) else return false

/-- `cfg.obtainCert(ctx, name, interactive=false)`; true = nil error -/
def obtainCert (nm : Nm) : P Bool := do
  if ← ask (.has nm) then return true           -- storage has it: obtain is a no-op
  if !(← ask .lock) then return false
  call (retrying (obtainOnce nm) maxAttempts)

/-- one run of the closure `f` of renewCert -/
def renewOnce (force : Bool) (nm : Nm) : P Bool := do
  if ← ask (.load nm) then
    let due ← if force then pure true else ask .storedDue
    if !due then return true                     -- renewed meanwhile by somebody else
    if ← ask (.issue nm) then
      if ← call (saveBundle nm) then return true
    return false
  else
    let _ ← ask (.loadNX nm)
    return false

/-- `cfg.renewCert(ctx, name, force, interactive=false)` -/
def renewCert (force : Bool) (nm : Nm) : P Bool := do
  if !(← ask .lock) then return false
  call (retrying (renewOnce force nm) maxAttempts)

/-- `reloadManagedCertificate(oldCert)` -/
def reload : P Bool := do
  if ← ask (.load .cert0) then return true
  let _ ← ask (.loadNX .cert0)
  return false

/-- `forceRenew(cert)` (maintain.go) -/
def forceRenew : P Bool := do
  let ok ← (do
    if ← ask .keyCompromise then
      let _ ← ask (.load .cert0)       -- moveCompromisedPrivateKey reads the old key
      call (obtainCert .cert0)
    else call (renewCert true .cert0))
  if !ok then
    act .removeFromCache
    return false
  call reload

/-- the closure `renewAndReload` of renewDynamicCertificate -/
def renewAndReload (c : Cfg) (f : Facts) (rv : Bool) : P Res := do
  if !(← gateCheck c f true) then
    act .removeFromCache
    act .unblockObtain
    return .err
  let ok ← if rv then call forceRenew else (do
    if ← call (renewCert false .hello) then call reload else pure false)
  act .unblockObtain
  return if ok then .new else .err

/-- `renewDynamicCertificate`. `own`: this thread has itself registered the obtain channel
and not yet unblocked it (it is inside obtainOnDemandCertificate's load of the new bundle). -/
def renewDynamic (c : Cfg) (f : Facts) (own : Bool) (rv : Bool) : P Res := do
  if !f.idnaOK then return .err
  let tl ← ask .timeLeftPos
  let present ← if own then pure true else ask .obtainChan
  if present then
    if tl && !rv then return .cur            -- serve current while somebody renews
    if ← ask .waitObtain then reenter else return .err
  else
    act .regObtain
    if tl then
      fork (do let _ ← call (renewAndReload c f rv))
      return .cur
    else call (renewAndReload c f rv)

/-- `loadCertFromStorage` up to the maintenance step: exact name, then wildcard variant -/
def loadBundle : P Bool := do
  if ← ask (.load .hello) then return true
  if !(← ask (.loadNX .hello)) then return false
  if ← ask (.load .wild) then return true
  let _ ← ask (.loadNX .wild)
  return false

/-- `obtainOnDemandCertificate` and `renewDynamicCertificate` as seen by the maintenance
code. They come in two layers: a thread that is inside obtainOnDemandCertificate's load of
the new bundle already owns the obtain channel (`ownedLayer`) and cannot register it again,
so the nesting ends there. -/
structure Layer where
  obtain : P Res                        -- obtainOnDemandCertificate
  renew : Bool → P Res                  -- renewDynamicCertificate (argument: revoked)

/-- the closure `renewIfNecessary` of handshakeMaintenance, with the D5 repair -/
def renewIfNecessary (c : Cfg) (f : Facts) (L : Layer) (rv : Bool) : P Res := do
  if !(← ask .needsRenewal) then return .cur
  if !(← ask (.has .cert0)) then
    -- bundle missing from storage: obtain anew — after asking the policy (D5 repair)
    if !f.idnaOK then return .err
    if !(← gateCheck c f true) then return .err
    call L.obtain
  else call (L.renew rv)

/-- `handshakeMaintenance` -/
def maintenance (c : Cfg) (f : Facts) (L : Layer) (ari : Bool) : P Res := do
  let rv ← ask .revoked
  call (do
    if ari then
      if ← ask .ariDue then
        -- goroutine: updateARI, then renewIfNecessary
        fork (do act .ariMeta; let _ ← call (renewIfNecessary c f L rv)))
  if rv then call (L.renew true)
  else call (renewIfNecessary c f L false)

/-- `loadCertFromStorage` with the D3b repair: a failed maintenance keeps the loaded
certificate and is an error only if that certificate is expired -/
def loadFromStorage (c : Cfg) (f : Facts) (L : Layer) (ari : Bool) : P Res := do
  if !f.idnaOK then return .none
  if !(← call loadBundle) then return .none
  match ← call (maintenance c f L ari) with
  | .err => if ← ask .timeLeftPos then return .cur else return .err
  | r => return r

/-- layer 1: the thread owns the obtain channel -/
def ownedLayer (c : Cfg) (f : Facts) : Layer where
  obtain := do
    if !f.idnaOK then return .err
    -- the map holds this thread's own channel: it waits on it
    if ← ask .waitObtain then reenter else return .err
  renew := renewDynamic c f true

/-- `obtainOnDemandCertificate` (the thread owns no obtain channel yet). The maintenance of
the bundle obtained a moment ago starts no ARI goroutine (a new certificate's renewal
information is not yet due for a refresh — assumption, see props.d/C02.json). -/
def obtainOnDemand (c : Cfg) (f : Facts) : P Res := do
  if !f.idnaOK then return .err
  if ← ask .obtainChan then
    if ← ask .waitObtain then reenter else return .err
  else
    act .regObtain
    let r ← (do
      if ← call (obtainCert .hello) then
        act .fresh
        match ← call (loadFromStorage c f (ownedLayer c f) false) with
        | .none => pure .err
        | .cur => pure .new           -- the bundle loaded here is the one just obtained
        | r => pure r
      else pure .err)
    act .unblockObtain
    return r

/-- layer 0: the thread owns no obtain channel -/
def freeLayer (c : Cfg) (f : Facts) : Layer where
  obtain := obtainOnDemand c f
  renew := renewDynamic c f false

/-- `optionalMaintenance` -/
def optionalMaintenance (c : Cfg) (f : Facts) : P Res := do
  match ← call (maintenance c f (freeLayer c f) c.ari) with
  | .err => if ← ask .timeLeftPos then return .cur else return .err
  | r => return r

/-- managers, policy gate and default certificate: the tail shared by both entries -/
def managersThen (c : Cfg) (k : P Res) : P Res := do
  if c.onDemand && c.managers then
    if ← ask .mgrErr then return .err
    if ← ask .mgrCert then return .mgr
  k

def defaultOrError : P Res := do
  if ← ask .cacheDefault then return .dflt else return .err

/-- `getCertDuringHandshake(ctx, hello, true)` — a whole handshake -/
def getCert (c : Cfg) (f : Facts) : P Res := do
  if ← ask .cacheHit then
    if c.onDemand then
      if ← ask .managed then call (optionalMaintenance c f) else return .cur
    else return .cur
  else
  if !f.idnaOK then return .err
  if ← ask .loadChan then
    if ← ask .waitLoad then reenter else return .err
  else
  act .regLoad
  let r ← call <| managersThen c (do
    if !(← gateCheck c f false) then return .err
    if c.onDemand || c.almostFull then
      match ← call (loadFromStorage c f (freeLayer c f) c.ari) with
      | .none =>
        if c.onDemand then call (obtainOnDemand c f)
        else defaultOrError        -- not on-demand, nothing in storage: default / fallback / error
      | r => return r
    else defaultOrError)
  act .unregLoad
  return r

/-- `getCertDuringHandshake(ctx, hello, false)` — a re-entry after a wait. `ownLoad`: the
thread is (further up its stack) the load worker for this name; with the D9 repair it then
neither waits on nor re-registers the channel. -/
def reentry (c : Cfg) (f : Facts) (ownLoad : Bool) : P Res := do
  if ← ask .cacheHit then return .cur
  if !f.idnaOK then return .err
  let tail := managersThen c (do
    if !(← gateCheck c f false) then return .err
    defaultOrError)
  if ownLoad then tail
  else if ← ask .loadChan then
    if ← ask .waitLoad then reenter else return .err
  else
    act .regLoad
    let r ← call tail
    act .unregLoad
    return r

/-! ### the gating classification -/

def isIssue : Eff → Bool
  | .issue _ => true
  | _ => false

def isLoad : Eff → Bool
  | .load _ => true
  | _ => false

/-- issuer calls and certificate loads need a permit (while on-demand TLS is enabled) -/
def guardedEff (e : Eff) : Bool := isIssue e || isLoad e

def verdictOf : Eff → Bool → Option Bool
  | .gate, r => some r
  | .allow v, _ => some v
  | .reenter, _ => some false      -- nothing after a re-entry may rely on an earlier permit
  | _, _ => none

def G : Gating Eff := { verdict := verdictOf, guarded := guardedEff }

/-! ### SubjectQualifiesForCert (certificates.go) on lists of characters -/

/-- `unicode.IsSpace` -/
def isSpace (c : Char) : Bool :=
  c = '\t' || c = '\n' || c.toNat = 0x0B || c.toNat = 0x0C || c = '\r' || c = ' ' ||
  c.toNat = 0x85 || c.toNat = 0xA0 || c.toNat = 0x1680 || (0x2000 ≤ c.toNat && c.toNat ≤ 0x200A) ||
  c.toNat = 0x2028 || c.toNat = 0x2029 || c.toNat = 0x202F || c.toNat = 0x205F || c.toNat = 0x3000

/-- the argument of `strings.ContainsAny` in SubjectQualifiesForCert (tie: regenerated) -/
def forbidden : List Char := "()[]{}<> \t\n\"\\!@#$%^&|;'+=".toList

def startsWith (p s : List Char) : Bool := p.isPrefixOf s
def endsWithDot (s : List Char) : Bool := s.getLast? = some '.'

def qualifies (s : List Char) : Bool :=
  !(s.all isSpace) &&                                        -- strings.TrimSpace(subj) != ""
  !startsWith ['.'] s && !endsWithDot s &&
  (!s.contains '*' || startsWith ['*', '.'] s || s = ['*']) &&
  !s.any (fun c => forbidden.contains c)

end CM.Handshake
