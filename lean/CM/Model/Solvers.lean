/-
C16 — labelled transition system of the resources that solving ACME challenges creates.

Written after the code (solvers.go, with the `fix:` patches D13 and D13b applied):

  solverWrapper.Present / CleanUp        memory entry `activeChallenges[key]` set / deleted, then the wrapped solver
  distributedSolver.Present / CleanUp    token file stored / deleted (the delete with a context that cannot be
                                          cancelled), and the embedded solver's Present / CleanUp run *whatever*
                                          the storage said (D13)
  httpSolver.Present / CleanUp           `solvers[addr]`: count++ ; listener opened if we have none and the
                                          bind succeeds (address in use by somebody else: tolerated; other bind
                                          error: reported) / count-- ; at 0 the listener is closed and the
                                          entry deleted
  tlsALPNSolver.Present / CleanUp        the same, after making the challenge certificate; if that fails the
                                          challenge is still counted (D13b)
  DNS01Solver.Present / CleanUp          record appended at the provider and remembered by (name, value) /
                                          remembered record deleted at the provider with a fresh context and
                                          forgotten (always)

`acmez` calls `CleanUp` exactly once for every `Present` it made, after it, whether or not
`Present` failed, with the caller's — possibly cancelled — context (client.go,
solveChallenges / pollAuthorization). That discipline is the guard of `step`.
Addresses, identifier keys, record names and values are natural numbers here.
-/
namespace CM.Solvers

inductive Typ | http | alpn | dns
  deriving DecidableEq, Repr

/-- a challenge: which solver stack it goes through and which resources it names -/
structure Ch where
  id    : Nat
  typ   : Typ
  addr  : Nat      -- listen address of the HTTP-01 / TLS-ALPN-01 solver
  key   : Nat      -- identifier key: memory key, and token file under the issuer's prefix
  rname : Nat      -- DNS-01: record name
  rval  : Nat      -- DNS-01: record value (digest of the key authorisation)
  deriving DecidableEq, Repr

inductive Bind | ok | inUse | err
  deriving DecidableEq, Repr

/-- what the environment does to one `Present` call -/
structure PRes where
  store : Bool     -- the token store succeeds (false: storage error, or the context is already cancelled)
  cert  : Bool     -- the TLS-ALPN challenge certificate can be made
  bind  : Bind     -- outcome of `net.Listen`, *if* it is attempted
  prov  : Bool     -- DNS-01: zone found and `AppendRecords` succeeded
  deriving DecidableEq, Repr

/-- what the environment does to one `CleanUp` call -/
structure CRes where
  cancelled : Bool -- the caller's context is cancelled
  del       : Bool -- the storage `Delete` succeeds (given a live context)
  prov      : Bool -- DNS-01: the provider's `DeleteRecords` succeeds
  deriving DecidableEq, Repr

inductive Ev
  | present (c : Ch) (r : PRes)
  | cleanUp (c : Ch) (r : CRes)

structure State where
  cnt      : Nat → Int            -- `solvers[addr].count` (0 where there is no entry)
  lis      : Nat → Bool           -- `solvers[addr].listener != nil`: our listener is open
  ent      : Nat → Bool           -- `solvers` has an entry for addr
  tok      : Nat → Bool           -- token file exists
  mem      : Nat → Bool           -- `activeChallenges` has the key
  recMem   : List (Nat × Nat)     -- `DNSManager.records`, flattened: (name, value)
  provider : List (Nat × Nat)     -- the provider's TXT records (name, value)
  active   : List Ch              -- ghost: presented and not yet cleaned up

def State.init (p0 : List (Nat × Nat)) : State :=
  { cnt := fun _ => 0, lis := fun _ => false, ent := fun _ => false, tok := fun _ => false,
    mem := fun _ => false, recMem := [], provider := p0, active := [] }

def upd {α : Type} (f : Nat → α) (k : Nat) (v : α) : Nat → α := fun x => if x = k then v else f x

/-- `httpSolver.Present` / the second half of `tlsALPNSolver.Present` -/
def listenPresent (s : State) (a : Nat) (b : Bind) : State :=
  { s with cnt := upd s.cnt a (s.cnt a + 1), ent := upd s.ent a true
           lis := upd s.lis a (s.lis a || b == .ok) }

/-- `httpSolver.CleanUp` / `tlsALPNSolver.CleanUp`: count--; at 0 the listener is closed and
the entry deleted (otherwise `getSolverInfo` has made sure there is an entry) -/
def listenCleanUp (s : State) (a : Nat) : State :=
  { s with cnt := upd s.cnt a (s.cnt a - 1)
           lis := upd s.lis a (if s.cnt a - 1 = 0 then false else s.lis a)
           ent := upd s.ent a (decide (s.cnt a - 1 ≠ 0)) }

/-- `solverWrapper.Present` ∘ `distributedSolver.Present` (HTTP-01, TLS-ALPN-01) -/
def storePresent (s : State) (c : Ch) (r : PRes) : State :=
  { s with mem := upd s.mem c.key true, tok := upd s.tok c.key (r.store || s.tok c.key) }

/-- `solverWrapper.CleanUp` ∘ `distributedSolver.CleanUp`: the delete does not depend on the
caller's context -/
def storeCleanUp (s : State) (c : Ch) (r : CRes) : State :=
  { s with mem := upd s.mem c.key false, tok := upd s.tok c.key (!r.del && s.tok c.key) }

/-- what the calls do (no guard). `tlsALPNSolver.Present` without a challenge certificate
counts the challenge and attempts no bind — the same effect as a bind that fails. -/
def apply (s : State) : Ev → State
  | .present c r =>
    let s := { s with active := c :: s.active }
    match c.typ with
    | .http => listenPresent (storePresent s c r) c.addr r.bind
    | .alpn => listenPresent (storePresent s c r) c.addr (if r.cert then r.bind else .err)
    | .dns =>
      { s with mem := upd s.mem c.key true
               provider := if r.prov then (c.rname, c.rval) :: s.provider else s.provider
               recMem := if r.prov then s.recMem ++ [(c.rname, c.rval)] else s.recMem }
  | .cleanUp c r =>
    let s := { s with active := s.active.erase c }
    match c.typ with
    | .http => listenCleanUp (storeCleanUp s c r) c.addr
    | .alpn => listenCleanUp (storeCleanUp s c r) c.addr
    | .dns =>
      { s with mem := upd s.mem c.key false
               provider := if (c.rname, c.rval) ∈ s.recMem ∧ r.prov = true
                           then s.provider.erase (c.rname, c.rval) else s.provider
               recMem := s.recMem.erase (c.rname, c.rval) }

/-- acmez's discipline: `CleanUp` only for a challenge that was presented and not yet cleaned -/
def step (s : State) (e : Ev) : Option State :=
  match e with
  | .present _ _ => some (apply s e)
  | .cleanUp c _ => if c ∈ s.active then some (apply s e) else none

def run (s : State) : List Ev → Option State
  | [] => some s
  | e :: es => match step s e with
    | some s' => run s' es
    | none => none

/-- reachable from the initial state (provider holding `p0`) by events all satisfying `P` -/
inductive Reach (P : Ev → Prop) (p0 : List (Nat × Nat)) : State → Prop
  | init : Reach P p0 (State.init p0)
  | next {s s' : State} {e : Ev} : Reach P p0 s → P e → step s e = some s' → Reach P p0 s'

def Typ.listens : Typ → Bool
  | .http => true
  | .alpn => true
  | .dns => false

def Typ.isDNS : Typ → Bool
  | .dns => true
  | _ => false

/-- does the challenge use listen address `a`? -/
def uses (a : Nat) (c : Ch) : Bool := c.typ.listens && c.addr == a

/-- is the challenge a DNS-01 challenge for record `p`? -/
def hasRec (p : Nat × Nat) (c : Ch) : Bool := c.typ.isDNS && (c.rname, c.rval) == p

/-- restrictions on the environment used by some theorems -/
def anyEv : Ev → Prop := fun _ => True
/-- the storage does not fail a `Delete` issued with a live context -/
def storageDeletes : Ev → Prop
  | .cleanUp _ r => r.del = true
  | _ => True
/-- the DNS provider does not fail `DeleteRecords` -/
def providerDeletes : Ev → Prop
  | .cleanUp _ r => r.prov = true
  | _ => True

end CM.Solvers
