import CM.Lib.KV
/-
C10 — model of `FileStorage`'s Store/Load/Delete/Exists/List/Stat (filestorage.go L74-L170)
on a POSIX directory tree, written from the code that exists:

    Exists  = os.Stat(file); !errors.Is(err, fs.ErrNotExist)
    Store   = os.MkdirAll(dir(file)); atomicfile.New(file); Write; Close (= rename over file)
    Load    = os.ReadFile(file)
    Delete  = os.RemoveAll(file)
    List    = filepath.Walk(file(prefix)) skipping the root, SkipDir on directories unless recursive
    Stat    = os.Stat(file) -> (size, IsTerminal = !IsDir)

The state is the reference key–value store (`files`, see `CM.Lib.KV`) plus the set of
directories that exist on disk (`dirs`): `MkdirAll` creates them and nothing but a
`Delete` of a prefix removes them again, so a directory can outlive its last key
("lingering" directory).  Errors are mapped to the three classes the harness prints:
`ok`, `notexist` (errors.Is(err, fs.ErrNotExist)) and `err` (anything else: ENOTDIR when
a path runs *through* a file, EISDIR when a directory is read or renamed over).
-/
namespace CM.FileTree
open CM.KV

variable {κ : Type} [DecidableEq κ] {ν : Type}

structure FS (κ ν : Type) where
  files : Store κ ν
  dirs  : List (Key κ)

def FS.empty : FS κ ν := { files := [], dirs := [] }

inductive Res (α : Type) where
  | ok (a : α)
  | notexist
  | err
  deriving DecidableEq, Repr

/-- a proper prefix of `k` is a file: every path operation on `k` fails with ENOTDIR -/
def thruFile (t : FS κ ν) (k : Key κ) : Bool :=
  t.files.any (fun e => e.1.isPrefixOf k && decide (e.1 ≠ k))

def isFile (t : FS κ ν) (k : Key κ) : Bool := (load t.files k).isSome

/-- `k` is a directory on disk (the storage root always is) -/
def isDir (t : FS κ ν) (k : Key κ) : Bool := decide (k = []) || t.dirs.contains k

/-- the proper non-empty prefixes of `k` (the directories `MkdirAll(dir(k))` makes) -/
def parents (k : Key κ) : List (Key κ) :=
  (List.range (k.length - 1)).map (fun i => k.take (i + 1))

def addDirs (ds : List (Key κ)) (new : List (Key κ)) : List (Key κ) :=
  new.foldl (fun acc d => if acc.contains d then acc else acc ++ [d]) ds

/-- `Store`: ENOTDIR from MkdirAll if the path runs through a file (nothing is created);
otherwise the parents exist afterwards; the final rename fails (EISDIR) if `k` is a
directory, else `k` has the value. -/
def fsStore (t : FS κ ν) (k : Key κ) (v : ν) : Res Unit × FS κ ν :=
  if thruFile t k then (.err, t)
  else
    let t' : FS κ ν := { t with dirs := addDirs t.dirs (parents k) }
    if isDir t k then (.err, t')
    else (.ok (), { t' with files := KV.store t.files k v })

def fsLoad (t : FS κ ν) (k : Key κ) : Res ν :=
  if thruFile t k then .err
  else match load t.files k with
    | some v => .ok v
    | none => if isDir t k then .err else .notexist

/-- `Delete` = RemoveAll: removes `k` and everything below it, directories included;
`nil` when nothing is there; ENOTDIR through a file -/
def fsDelete (t : FS κ ν) (k : Key κ) : Res Unit × FS κ ν :=
  if thruFile t k then (.err, t)
  else (.ok (), { files := KV.delete t.files k, dirs := t.dirs.filter (fun d => !k.isPrefixOf d) })

/-- `Exists`: anything but a not-exist error counts as existing — including ENOTDIR (D11) -/
def fsExists (t : FS κ ν) (k : Key κ) : Bool :=
  thruFile t k || isFile t k || isDir t k

def fsStat (sz : ν → Nat) (t : FS κ ν) (k : Key κ) : Res Info :=
  if thruFile t k then .err
  else match load t.files k with
    | some v => .ok (.file (sz v))
    | none => if isDir t k then .ok .dir else .notexist

/-- every node on disk: file keys and directories -/
def nodes (t : FS κ ν) : List (Key κ) := t.files.map (·.1) ++ t.dirs

def fsList (t : FS κ ν) (p : Key κ) (recursive : Bool) : Res (List (Key κ)) :=
  if thruFile t p then .err
  else if isFile t p then .ok []
  else if !isDir t p then .notexist
  else .ok ((nodes t).filter (fun n =>
    p.isPrefixOf n && decide (p.length < n.length) && (recursive || n.length == p.length + 1)))

/-! ## how a query key relates to the contract state (used by the executable spec) -/

inductive Class where
  | file      -- has a value
  | dir       -- proper prefix of a stored key
  | thru      -- a proper prefix of it has a value (not addressable under the contract's file/directory reading)
  | linger    -- an empty directory left on disk; no key below it
  | missing   -- nothing
  deriving DecidableEq, Repr

def classify (t : FS κ ν) (k : Key κ) : Class :=
  if isFile t k then .file
  else if thruFile t k then .thru
  else if KV.exists t.files k then .dir
  else if isDir t k then .linger
  else .missing

/-! ## well-formedness and the refinement of the contract -/

/-- the directory tree is consistent with the stored keys -/
structure WF (t : FS κ ν) : Prop where
  parents_dirs : ∀ e ∈ t.files, ∀ d ∈ parents e.1, d ∈ t.dirs
  dirs_closed  : ∀ d ∈ t.dirs, ∀ d' ∈ parents d, d' ∈ t.dirs
  dirs_nonempty : [] ∉ t.dirs
  file_not_dir : ∀ e ∈ t.files, e.1 ∉ t.dirs ∧ e.1 ≠ []
  no_thru      : ∀ e ∈ t.files, thruFile t e.1 = false
  dir_no_thru  : ∀ d ∈ t.dirs, thruFile t d = false

end CM.FileTree
