/-
C18 — model of `CleanStorage`, `deleteOldOCSPStaples` and `deleteExpiredCerts`
(maintain.go), after the `fix:` patch D20 (a key directly under `certificates/<issuer>/`
is removed as an "empty site folder" only if it is a directory).

Storage is a key–value tree given as an association list (first entry for a key wins).
A key is its list of path components. A value is either a directory marker (back ends
with real directories — `FileStorage` — report every directory, also empty ones; a
back end without directories reports none) or a file, of which the model only knows
three independent *readings* computed outside the model from the file's bytes:

* `staple` — does it parse as an OCSP response (`ocsp.ParseResponse(b, nil)`), and if so
  its `NextUpdate` (`none` = absent, Go's zero time);
* `cert`   — is its first PEM block a `CERTIFICATE` that `x509.ParseCertificate` accepts,
  and if so its `NotAfter`;
* `last`   — does it decode as the `last_clean.json` payload, and if so the `"tls"`
  timestamp (`none` = zero / no such entry) and instance id.

Instants and durations are `Int` nanoseconds. `Delete` is by component prefix (both back
ends remove a directory with everything below it). Listings are taken in the order of
the association list (the harness passes keys sorted component-wise, which is the order
of both back ends); no theorem depends on that order.
Not modelled: cancellation of the context, storage errors other than "not a file".
-/
namespace CM.Clean

abbrev Comp := List Char
abbrev Key := List Comp

structure Readings where
  staple : Option (Option Int)
  cert : Option Int
  last : Option (Option Int × List Char)
  deriving DecidableEq, Repr

inductive Val
  | file (r : Readings)
  | dir
  deriving DecidableEq, Repr

abbrev Store := List (Key × Val)

/-! ### constants (tied to the source by CM/Tie/C18) -/
def ocspC : Comp := "ocsp".toList
def certsC : Comp := "certificates".toList
def lastC : Comp := "last_clean.json".toList
def lockName : List Char := "storage_clean".toList
def crtExt : List Char := ".crt".toList
def keyExt : List Char := ".key".toList
def jsonExt : List Char := ".json".toList
def sec : Int := 1000000000

def lastKey : Key := [lastC]

/-! ### the key–value tree -/

def get : Store → Key → Option Val
  | [], _ => none
  | (k', v) :: s, k => if k' = k then some v else get s k

/-- `Storage.Delete`: the key and everything below it -/
def del (d : Key) (s : Store) : Store := s.filter (fun e => !decide (d <+: e.1))

/-- `Storage.Store` (the first entry for a key wins) -/
def put (k : Key) (v : Val) (s : Store) : Store := (k, v) :: s

/-- the component following prefix `p` in key `k`, if `k` lies strictly below `p` -/
def nextComp : Key → Key → Option Comp
  | [], c :: _ => some c
  | [], [] => none
  | _ :: _, [] => none
  | a :: p, b :: k => if a = b then nextComp p k else none

/-- `Storage.List(prefix, false)`: the direct children, or `none` (an error) if there is
nothing at or below the prefix -/
def listing (p : Key) (s : Store) : Option (List Comp) :=
  if s.any (fun e => decide (p <+: e.1)) then some (s.filterMap (fun e => nextComp p e.1)).eraseDups
  else none

/-- `strip suf c = some stem` iff `c = stem ++ suf` (`strings.TrimSuffix` when
`path.Ext` is the suffix) -/
def strip (suf : List Char) : List Char → Option (List Char)
  | [] => if suf = [] then some [] else none
  | x :: xs => if x :: xs = suf then some [] else (strip suf xs).map (x :: ·)

/-- `expiresAt`: NotAfter truncated to the second, plus one second -/
def expiresAt (na : Int) : Int := na / sec * sec + sec

/-! ### options, state, outcome -/

structure Opts where
  interval : Int
  ocsp : Bool
  certs : Bool
  grace : Int
  inst : List Char
  deriving Repr

/-- storage state during a cleaning, with the `Delete` calls issued so far -/
structure St where
  s : Store
  dels : List Key
  abort : Bool
  deriving Repr

def St.delete (st : St) (d : Key) : St := { st with s := del d st.s, dels := st.dels ++ [d] }

/-! ### deleteOldOCSPStaples -/

/-- would the staple pass delete a file with these readings? (unparseable, or
`time.Now().After(NextUpdate)`, which is true of an absent NextUpdate) -/
def staleStaple (now : Int) (r : Readings) : Bool :=
  match r.staple with
  | none => true
  | some none => true
  | some (some nu) => decide (now > nu)

def stapleStep (now : Int) (st : St) (c : Comp) : St :=
  match get st.s [ocspC, c] with
  | some (.file r) => if staleStaple now r then st.delete [ocspC, c] else st
  | _ => st      -- Load failed (a directory): logged, skipped

def staples (now : Int) (st : St) : St :=
  match listing [ocspC] st.s with
  | none => st
  | some cs => cs.foldl (stapleStep now) st

/-! ### deleteExpiredCerts -/

/-- one entry of a site folder's listing -/
def assetStep (o : Opts) (now : Int) (site : Key) (st : St) (a : Comp) : St :=
  if st.abort then st else
  match strip crtExt a with
  | none => st                                   -- path.Ext(assetKey) != ".crt"
  | some stem =>
    match get st.s (site ++ [a]) with
    | some (.file r) =>
      match r.cert with
      | some na =>
        if now - expiresAt na ≥ o.grace then
          ((st.delete (site ++ [a])).delete (site ++ [stem ++ keyExt])).delete (site ++ [stem ++ jsonExt])
        else st
      | none => { st with abort := true }        -- not a PEM certificate: the whole pass returns
    | _ => { st with abort := true }             -- cannot be loaded: the whole pass returns

/-- one key directly under an issuer folder -/
def siteStep (o : Opts) (now : Int) (issuer : Key) (st : St) (c : Comp) : St :=
  if st.abort then st else
  match listing (issuer ++ [c]) st.s with
  | none => st
  | some assets =>
    let st1 := assets.foldl (assetStep o now (issuer ++ [c])) st
    if st1.abort then st1 else
    match listing (issuer ++ [c]) st1.s with
    | some [] =>
      -- the listing is empty: the key is an empty folder or a plain file; only a folder
      -- is removed (Stat says it is not terminal)
      if get st1.s (issuer ++ [c]) = some .dir then st1.delete (issuer ++ [c]) else st1
    | _ => st1

def issuerStep (o : Opts) (now : Int) (st : St) (i : Comp) : St :=
  if st.abort then st else
  match listing [certsC, i] st.s with
  | none => st
  | some sites => sites.foldl (siteStep o now [certsC, i]) st

def certsPass (o : Opts) (now : Int) (st : St) : St :=
  match listing [certsC] st.s with
  | none => st
  | some is => is.foldl (issuerStep o now) st

/-! ### CleanStorage -/

inductive Last | go | recent | loadErr | decodeErr
  deriving DecidableEq, Repr

/-- the interval check on `last_clean.json` -/
def lastCheck (o : Opts) (now : Int) (s : Store) : Last :=
  if o.interval > 0 then
    match get s lastKey with
    | none => .go                                  -- fs.ErrNotExist
    | some .dir => .loadErr
    | some (.file r) =>
      match r.last with
      | none => .decodeErr
      | some (none, _) => .go                      -- zero timestamp: time.Since saturates
      | some (some t, _) => if now - t < o.interval then .recent else .go
  else .go

/-- the record written at the end -/
def record (now : Int) (inst : List Char) : Val :=
  .file { staple := none, cert := none, last := some (some now, inst) }

inductive Act | lock | unlock | delete (k : Key) | store (k : Key)
  deriving DecidableEq, Repr

structure Outcome where
  err : Bool          -- CleanStorage returned an error
  ran : Bool          -- the cleaning body ran (not skipped, no error before it)
  dels : List Key     -- Delete calls, in order
  aborted : Bool      -- deleteExpiredCerts returned early on an unreadable .crt
  deriving Repr

/-- the two deletion passes -/
def body (o : Opts) (now : Int) (s : Store) : St :=
  let st0 : St := { s := s, dels := [], abort := false }
  let st1 := if o.ocsp then staples now st0 else st0
  if o.certs then certsPass o now st1 else st1

def clean (o : Opts) (now : Int) (s : Store) : Store × Outcome :=
  match lastCheck o now s with
  | .loadErr => (s, { err := true, ran := false, dels := [], aborted := false })
  | .decodeErr => (s, { err := true, ran := false, dels := [], aborted := false })
  | .recent => (s, { err := false, ran := false, dels := [], aborted := false })
  | .go =>
    let st := body o now s
    (put lastKey (record now o.inst) st.s, { err := false, ran := true, dels := st.dels, aborted := st.abort })

/-- the mutating storage calls of one `CleanStorage`, in order -/
def acts (o : Opts) (now : Int) (s : Store) : List Act :=
  let out := (clean o now s).2
  .lock :: (out.dels.map .delete ++ (if out.ran then [.store lastKey] else [])) ++ [.unlock]

end CM.Clean
