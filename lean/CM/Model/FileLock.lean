/-
C08 — timed labelled transition system of ONE lock file of `FileStorage`
(filestorage.go: Lock L174-L258, Unlock, createLockfile, keepLockfileFresh,
updateLockfileFreshness, atomicallyCreateFile, fileLockIsStale), written from the code
with the three repairs proposed in /verif/patches applied:

  D8   an undecodable (truncated / garbage) lock file is treated like an empty one
       (count, retry, then stale) instead of making `Lock` return a decode error for ever;
  D18  the empty-read counter is reset by every read that decodes a fresh lock, so only
       CONSECUTIVE empty reads count;
  D21  the heartbeat goroutine stops when the file it finds was not created by its own
       `Lock` (different `created` stamp) instead of keeping a successor's file fresh.

The lock file is absent or an inode with one of the contents {empty, garbage,
meta(created, updated)}. Actors are indexed by `Nat` (unboundedly many). An actor is one
`Lock` … `Unlock` episode together with the heartbeat goroutine it spawned; the heartbeat
outlives `Unlock` until it next wakes up (a *zombie*), exactly as in the code. Every file
system call is one step; time passes only by `tick`.

    Lock loop            tryCreate   O_CREATE|O_EXCL: absent ⇒ the file appears EMPTY (`created`);
                                     present ⇒ `exists`
                         writeMeta   Encode{created: now, updated: now}; Lock returns nil; go heartbeat
                         observe     open + decode:  absent ⇒ retry at once
                                                     empty/garbage ⇒ count; < N ⇒ sleep E; else remove
                                                     meta, stale ⇒ remove
                                                     meta, fresh ⇒ counter := 0, sleep P
                         remove      os.Remove(name) — whatever file has the name NOW
                         wake        the timer of the select fired
                         cancel      ctx.Done() in the select ⇒ Lock returns ctx.Err()
    Unlock               unlock      os.Remove(name)
    heartbeat            hbOpen      (after sleeping H) open O_RDWR + read: absent / undecodable /
                                     foreign ⇒ the goroutine ends; else it holds the descriptor
                         hbTrunc     Truncate(0): the file is EMPTY for a moment
                         hbWrite     Encode{created, updated: now}; sleep H
    kill -9              die         the Lock caller and its heartbeat vanish; the file stays

Times are `Nat` nanoseconds; `0` as a time stamp is Go's zero `time.Time`.
-/
namespace CM.FileLock

structure Params where
  H : Nat        -- lockFreshnessInterval
  factor : Nat   -- stale when now - ref > factor * H
  P : Nat        -- fileLockPollInterval
  E : Nat        -- retry delay after an empty / undecodable read
  N : Nat        -- such reads tolerated before the file is declared stale
  deriving Repr, DecidableEq

/-- the constants of the code (regenerated and compared in `CM/Tie/C08.lean`) -/
def codeParams : Params :=
  { H := 5000000000, factor := 2, P := 1000000000, E := 250000000, N := 8 }

inductive Content where
  | empty
  | garbage
  | stamp (created updated : Nat)
  deriving DecidableEq, Repr

inductive PC where
  | idle
  | try_ (e : Nat)                 -- top of the loop; e = emptyCount
  | created (i : Nat)              -- O_EXCL create succeeded on inode i (file still empty)
  | exists_ (e : Nat)              -- create said EEXIST
  | sleepE (e due : Nat)           -- select { time.After(E), ctx.Done }
  | poll (e due : Nat)             -- select { time.After(P), ctx.Done }
  | removing (e : Nat)             -- decided "stale"; about to os.Remove
  | holding (i c : Nat)            -- Lock returned nil (inode i, created stamp c)
  | released                       -- Unlock called
  | cancelled                      -- Lock returned ctx.Err()
  | dead
  deriving DecidableEq, Repr

inductive HB where
  | off
  | sleep (due c : Nat)            -- time.Sleep(H); c = the created stamp of its own lock
  | opened (i c : Nat)             -- holds a descriptor on inode i, has read a decodable meta
  | trunc (i c : Nat)              -- has truncated
  | stopped
  deriving DecidableEq, Repr

structure State where
  now  : Nat
  file : Option (Nat × Content)    -- (inode, content) currently bound to the lock file's name
  next : Nat                       -- inodes ≥ next are unused
  pc   : Nat → PC
  hb   : Nat → HB
  beat : Nat → Nat                 -- ghost: instant of the actor's last completed heartbeat write (or creation)

inductive Ev where
  | tick (d : Nat)
  | lock (p : Nat) | tryCreate (p : Nat) | writeMeta (p : Nat) | observe (p : Nat) | remove (p : Nat)
  | wake (p : Nat) | cancel (p : Nat) | unlock (p : Nat) | die (p : Nat)
  | hbOpen (p : Nat) | hbTrunc (p : Nat) | hbWrite (p : Nat)
  deriving DecidableEq, Repr

def upd {α : Type} (f : Nat → α) (k : Nat) (v : α) : Nat → α := fun x => if x = k then v else f x

@[simp] theorem upd_same {α : Type} (f : Nat → α) (k : Nat) (v : α) : upd f k v k = v := by simp [upd]
theorem upd_other {α : Type} (f : Nat → α) (k x : Nat) (v : α) (h : x ≠ k) : upd f k v x = f x := by
  simp [upd, h]

/-- `fileLockIsStale`: ref = updated, or created if updated is the zero time;
`time.Since(ref) > factor * lockFreshnessInterval` -/
def stale (c : Params) (now created updated : Nat) : Bool :=
  decide (now - (if updated = 0 then created else updated) > c.factor * c.H)

/-- write `cont` into inode `i` if (and only if) that inode still has the name -/
def writeIno (f : Option (Nat × Content)) (i : Nat) (cont : Content) : Option (Nat × Content) :=
  match f with
  | some (j, old) => if j = i then some (i, cont) else some (j, old)
  | none => none

/-- what a contender does after having read an empty or undecodable lock file -/
def afterEmpty (c : Params) (now e : Nat) : PC :=
  if e + 1 < c.N then .sleepE (e + 1) (now + c.E) else .removing (e + 1)

def step (c : Params) (s : State) : Ev → Option State
  | .tick d => some { s with now := s.now + d }
  | .lock p =>
    match s.pc p with
    | .idle => some { s with pc := upd s.pc p (.try_ 0) }
    | _ => none
  | .tryCreate p =>
    match s.pc p with
    | .try_ e =>
      match s.file with
      | none => some { s with file := some (s.next, .empty), next := s.next + 1, pc := upd s.pc p (.created s.next) }
      | some _ => some { s with pc := upd s.pc p (.exists_ e) }
    | _ => none
  | .writeMeta p =>
    match s.pc p with
    | .created i =>
      some { s with file := writeIno s.file i (.stamp s.now s.now), pc := upd s.pc p (.holding i s.now)
                    hb := upd s.hb p (.sleep (s.now + c.H) s.now), beat := upd s.beat p s.now }
    | _ => none
  | .observe p =>
    match s.pc p with
    | .exists_ e =>
      match s.file with
      | none => some { s with pc := upd s.pc p (.try_ e) }
      | some (_, .empty) => some { s with pc := upd s.pc p (afterEmpty c s.now e) }
      | some (_, .garbage) => some { s with pc := upd s.pc p (afterEmpty c s.now e) }
      | some (_, .stamp cr u) =>
        if stale c s.now cr u then some { s with pc := upd s.pc p (.removing e) }
        else some { s with pc := upd s.pc p (.poll 0 (s.now + c.P)) }
    | _ => none
  | .remove p =>
    match s.pc p with
    | .removing e => some { s with file := none, pc := upd s.pc p (.try_ e) }
    | _ => none
  | .wake p =>
    match s.pc p with
    | .sleepE e due => if due ≤ s.now then some { s with pc := upd s.pc p (.try_ e) } else none
    | .poll e due => if due ≤ s.now then some { s with pc := upd s.pc p (.try_ e) } else none
    | _ => none
  | .cancel p =>
    match s.pc p with
    | .sleepE _ _ => some { s with pc := upd s.pc p .cancelled }
    | .poll _ _ => some { s with pc := upd s.pc p .cancelled }
    | _ => none
  | .unlock p =>
    match s.pc p with
    | .holding _ _ => some { s with file := none, pc := upd s.pc p .released }
    | _ => none
  | .die p =>
    match s.pc p with
    | .dead => none
    | _ => some { s with pc := upd s.pc p .dead, hb := upd s.hb p .stopped }
  | .hbOpen p =>
    match s.hb p with
    | .sleep due c0 =>
      if due ≤ s.now then
        match s.file with
        | some (i, .stamp cr _) =>
          if cr = c0 then some { s with hb := upd s.hb p (.opened i c0) }
          else some { s with hb := upd s.hb p .stopped }
        | _ => some { s with hb := upd s.hb p .stopped }
      else none
    | _ => none
  | .hbTrunc p =>
    match s.hb p with
    | .opened i c0 => some { s with file := writeIno s.file i .empty, hb := upd s.hb p (.trunc i c0) }
    | _ => none
  | .hbWrite p =>
    match s.hb p with
    | .trunc i c0 =>
      some { s with file := writeIno s.file i (.stamp c0 s.now), hb := upd s.hb p (.sleep (s.now + c.H) c0)
                    beat := upd s.beat p s.now }
    | _ => none

def run (c : Params) : State → List Ev → Option State
  | s, [] => some s
  | s, e :: es => match step c s e with
    | some s' => run c s' es
    | none => none

/-- start: time `t0`; the lock file absent or left behind by somebody who is gone;
everybody idle -/
def initState (t0 : Nat) (f0 : Option Content) : State where
  now := t0
  file := f0.map (fun c => (0, c))
  next := 1
  pc := fun _ => .idle
  hb := fun _ => .off
  beat := fun _ => 0

/-- reachability under an assumption `A` on transitions (the named scheduler assumptions
of C08 are such predicates; `fun _ _ _ => True` = no assumption) -/
inductive Reach (c : Params) (A : State → Ev → State → Prop) (s0 : State) : State → Prop where
  | init : Reach c A s0 s0
  | step {s s' : State} {e : Ev} : Reach c A s0 s → step c s e = some s' → A s e s' → Reach c A s0 s'

/-- the inode an actor has created and not yet released -/
def ownIno : PC → Option Nat
  | .created i => some i
  | .holding i _ => some i
  | _ => none

/-- the actor is between a successful O_EXCL create and its Unlock: it holds the lock or
is about to be told so -/
def owner (s : State) (p : Nat) : Prop := ∃ i, ownIno (s.pc p) = some i

/-- the inode a heartbeat has a descriptor on -/
def hbIno : HB → Option Nat
  | .opened i _ => some i
  | .trunc i _ => some i
  | _ => none

/-! ## the named assumptions (predicates on transitions) -/

/-- **H_timely** (with lateness bound `J`): whenever an actor is holding, its last
completed heartbeat (or its creation) is at most `H + J` ago -/
def HTimely (c : Params) (J : Nat) : State → Ev → State → Prop :=
  fun _ _ s' => ∀ p i cr, s'.pc p = .holding i cr → s'.now ≤ s'.beat p + c.H + J

/-- **H_live**: nobody dies between its successful create and its Unlock -/
def HLive : State → Ev → State → Prop :=
  fun s e _ => ∀ p, e = .die p → ¬ owner s p

/-- **H_empty**: while the creator of the present lock file is alive, no contender reads it
as empty/undecodable `N` times IN A ROW (with D18 repaired the counter restarts at every
read that decodes) — i.e. such a read never ends in the decision to remove the file -/
def HEmpty : State → Ev → State → Prop :=
  fun s e s' => ∀ p, e = .observe p →
    (∃ i, (s.file = some (i, .empty) ∨ s.file = some (i, .garbage)) ∧ ∃ q, ownIno (s.pc q) = some i) →
    ∀ k, s'.pc p ≠ .removing k

end CM.FileLock
