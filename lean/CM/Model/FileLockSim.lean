import CM.Model.FileLock
/-
C08 — a deterministic discrete-event scheduler over the lock-file LTS, used by the driver
to predict what a *script* of actors does under exact (virtual) timers. It only ever
calls the model's own `step`; it adds no behaviour. At every instant it runs every enabled
instantaneous step (actor by actor), then lets time pass to the next due instant —
which is what `testing/synctest` does with the real code. With scripts whose actors never
act at the same instant the outcome is independent of the order chosen here.

Also the executable specification `judge` of C08 over the outcomes of a script.
-/
namespace CM.FileLock

structure Actor where
  t0 : Nat            -- instant of the Lock call
  hold : Nat          -- Unlock this long after Lock returned
  cancelAt : Nat      -- the context is cancelled at this instant …
  horizon : Bool      -- … which is only the end of the experiment (the script expects an acquisition)
  late : Nat := 0     -- every heartbeat of this actor runs this much after it is due (H_timely allows < H)
  deriving Repr

/-- a lock file left by a foreign process that is gone: appears at `at_` if the name is free -/
structure Ext where
  at_ : Nat
  cont : Content
  deriving Repr

inductive Outcome where
  | pending | acq (t : Nat) | cancel (t : Nat)
  | err (t : Nat)     -- Lock returned an error that is not the context's (never predicted by the model)
  deriving DecidableEq, Repr

structure Sim where
  s : State
  out : List Outcome
  exts : List Ext

def getA (as : List Actor) (p : Nat) : Actor := as.getD p { t0 := 0, hold := 0, cancelAt := 0, horizon := true }

def setOut (o : List Outcome) (p : Nat) (v : Outcome) : List Outcome := o.set p v

/-- rebuild the per-actor functions from tables (keeps closures shallow in the compiled driver) -/
def normalize (n : Nat) (s : State) : State :=
  let pcs := (List.range n).map s.pc
  let hbs := (List.range n).map s.hb
  let bts := (List.range n).map s.beat
  { s with pc := fun q => pcs.getD q .idle, hb := fun q => hbs.getD q .off, beat := fun q => bts.getD q 0 }

/-- the enabled instantaneous event of actor `p` at the present instant, if any -/
def actorEvent (as : List Actor) (sim : Sim) (p : Nat) : Option Ev :=
  let a := getA as p
  let now := sim.s.now
  match sim.s.pc p with
  | .idle => if sim.out.getD p .pending = .pending ∧ a.t0 ≤ now then some (.lock p) else none
  | .try_ _ => some (.tryCreate p)
  | .created _ => some (.writeMeta p)
  | .exists_ _ => some (.observe p)
  | .removing _ => some (.remove p)
  | .sleepE _ due => if a.cancelAt ≤ now then some (.cancel p) else if due ≤ now then some (.wake p) else none
  | .poll _ due => if a.cancelAt ≤ now then some (.cancel p) else if due ≤ now then some (.wake p) else none
  | .holding _ _ =>
    match sim.out.getD p .pending with
    | .acq t => if t + a.hold ≤ now then some (.unlock p) else none
    | _ => none
  | _ => none

def hbEvent (as : List Actor) (sim : Sim) (p : Nat) : Option Ev :=
  match sim.s.hb p with
  | .sleep due _ => if due + (getA as p).late ≤ sim.s.now then some (.hbOpen p) else none
  | .opened _ _ => some (.hbTrunc p)
  | .trunc _ _ => some (.hbWrite p)
  | _ => none

/-- the next instant at which something becomes enabled -/
def nextDue (as : List Actor) (n : Nat) (sim : Sim) : Option Nat :=
  let now := sim.s.now
  let cands : List Nat := (List.range n).flatMap (fun p =>
    let a := getA as p
    (match sim.s.pc p with
      | .idle => if sim.out.getD p .pending = .pending then [a.t0] else []
      | .sleepE _ due => [due, a.cancelAt]
      | .poll _ due => [due, a.cancelAt]
      | .holding _ _ => match sim.out.getD p .pending with
        | .acq t => [t + a.hold]
        | _ => []
      | _ => []) ++
    (match sim.s.hb p with
      | .sleep due _ => [due + a.late]
      | _ => []))
  let cands := cands ++ sim.exts.map (·.at_)
  let fut := cands.filter (fun t => now < t)
  match fut with
  | [] => none
  | t :: ts => some (ts.foldl min t)

def firstSome {α : Type} (f : Nat → Option α) : Nat → Nat → Option α
  | _, 0 => none
  | p, k + 1 => match f p with
    | some a => some a
    | none => firstSome f (p + 1) k

/-- one scheduling decision; `none` = nothing left to do -/
def simStep (c : Params) (as : List Actor) (n : Nat) (sim : Sim) : Option Sim :=
  -- a foreign file appears
  match sim.exts.find? (fun x => x.at_ ≤ sim.s.now) with
  | some x =>
    let rest := sim.exts.filter (fun y => !(y.at_ == x.at_))
    if sim.s.file.isNone then
      some { sim with s := { sim.s with file := some (sim.s.next, x.cont), next := sim.s.next + 1 }, exts := rest }
    else some { sim with exts := rest }
  | none =>
  match firstSome (fun p => (actorEvent as sim p).map (fun e => (p, e))) 0 n with
  | some (p, e) =>
    match step c sim.s e with
    | some s' =>
      let out := match e, s'.pc p with
        | .writeMeta _, .holding _ _ => setOut sim.out p (.acq s'.now)
        | .cancel _, _ => setOut sim.out p (.cancel s'.now)
        | _, _ => sim.out
      some { sim with s := normalize n s', out := out }
    | none => none
  | none =>
  match firstSome (fun p => hbEvent as sim p) 0 n with
  | some e =>
    match step c sim.s e with
    | some s' => some { sim with s := normalize n s' }
    | none => none
  | none =>
  match nextDue as n sim with
  | some t =>
    match step c sim.s (.tick (t - sim.s.now)) with
    | some s' => some { sim with s := s' }
    | none => none
  | none => none

def simRun (c : Params) (as : List Actor) (n : Nat) : Nat → Sim → Sim × Bool
  | 0, sim => (sim, false)
  | fuel + 1, sim =>
    match simStep c as n sim with
    | some sim' => simRun c as n fuel sim'
    | none => (sim, true)

def simulate (c : Params) (t0 : Nat) (f0 : Option Content) (as : List Actor) (exts : List Ext) (fuel : Nat) :
    List Outcome × Bool :=
  let n := as.length
  let (sim, fin) := simRun c as n fuel { s := initState t0 f0, out := as.map (fun _ => .pending), exts := exts }
  (sim.out, fin)

/-! ## one contender running alone with exact timers (used by `C08_recovers`) -/

/-- the unique next event of a contender that runs alone with exact timers -/
def soloNext (s : State) (p : Nat) : Option Ev :=
  match s.pc p with
  | .try_ _ => some (.tryCreate p)
  | .created _ => some (.writeMeta p)
  | .exists_ _ => some (.observe p)
  | .removing _ => some (.remove p)
  | .sleepE _ due => some (if due ≤ s.now then .wake p else .tick (due - s.now))
  | .poll _ due => some (if due ≤ s.now then .wake p else .tick (due - s.now))
  | _ => none

def soloRun (c : Params) : Nat → State → Nat → State
  | 0, s, _ => s
  | n + 1, s, p =>
    match soloNext s p with
    | some e => match step c s e with
      | some s' => soloRun c n s' p
      | none => s
    | none => s

/-! ## executable specification of C08 over the outcomes of a script -/

def refOf (cr u : Nat) : Nat := if u = 0 then cr else u

/-- the instant by which a contender that starts polling at `t` must have the lock when
the file it finds belongs to nobody alive (`C08_recovers_*`) -/
def recoverBound (c : Params) (cont : Content) (t : Nat) : Nat :=
  match cont with
  | .stamp cr u => max t (refOf cr u + c.factor * c.H + c.P)
  | _ => t + (c.N - 1) * c.E

def overlap (a b : Nat × Nat) : Bool := decide (a.1 < b.2 ∧ b.1 < a.2)

def anyOverlap : List (Nat × Nat) → Bool
  | [] => false
  | x :: xs => xs.any (overlap x) || anyOverlap xs

/-- `slack`: tolerated lateness of a return (0 under virtual time) -/
def judge (c : Params) (slack : Nat) (f0 : Option Content) (as : List Actor) (exts : List Ext)
    (outs : List Outcome) : String :=
  let rows := as.zip outs
  -- prompt return on cancellation; an acquisition the script expects must happen
  let cancelBad := rows.any (fun (a, o) => match o with
    | .cancel t => !a.horizon && decide (a.cancelAt + slack < t)
    | .acq t => !a.horizon && decide (a.cancelAt + slack < t)
    | _ => false)
  let starved := rows.any (fun (a, o) => match o with
    | .cancel _ => a.horizon
    | .pending => true
    | _ => false)
  let ivs := rows.filterMap (fun (a, o) => match o with
    | .acq t => some (t, t + a.hold)
    | _ => none)
  -- all holders alive for the whole script (no foreign file): intervals must be disjoint
  let excl := f0.isNone && exts.isEmpty && anyOverlap ivs
  -- a file nobody alive owns: the first contender to arrive gets the lock within the bound
  let firstAcq (from_ : Nat) : Option Nat :=
    (ivs.filter (fun iv => from_ ≤ iv.1)).foldl (fun m iv => match m with
      | none => some iv.1
      | some x => some (min x iv.1)) none
  let lateFor (cont : Content) (from_ : Nat) : Bool :=
    let arr := (rows.filter (fun (a, _) => from_ ≤ a.t0 ∧ (a.horizon ∨ recoverBound c cont a.t0 < a.cancelAt))).map (·.1.t0)
    match arr with
    | [] => false
    | t :: ts =>
      let t1 := ts.foldl min t
      -- only judged if everybody who arrives before the bound keeps waiting
      if rows.any (fun (a, _) => from_ ≤ a.t0 ∧ !a.horizon ∧ a.cancelAt ≤ recoverBound c cont t1) then false
      else match firstAcq from_ with
        | some x => decide (recoverBound c cont t1 + slack < x)
        | none => true
  let late := (match f0 with
    | some cont => lateFor cont 0
    | none => false) || exts.any (fun x => lateFor x.cont x.at_)
  if outs.any (fun o => match o with | .err _ => true | _ => false) then "bad:lock-error"
  else if cancelBad then "bad:late-cancel"
  else if excl then "bad:overlap"
  else if late then "bad:late-recovery"
  else if starved then "bad:never-acquired"
  else "ok"

end CM.FileLock
