import CM.Model.Renew
/-!
C05 — model of certificate maintenance, written from the code that exists:

* `Config.manageOne` (config.go): `manageDecision` + `manage`
* `Cache.RenewManagedCertificates` (maintain.go): `scan` (under the read lock) and `exec`
  (after it): reload queue first, then the renew queue, then the delete queue
* `Cache.queueRenewalTask`: the named job `renew_<names[0]>` = `Job` with `kind := .pass old`
* `jobManager.Submit` (async.go): `submit` (a second job with a name that is queued or
  running is dropped)
* `Config.renewCert` / `obtainCert` under the C01 lock, with `doWithRetry`: `attempt`, `settle`
* `Config.reloadManagedCertificate`, `Cache.replaceCertificate`, `removeCertificate`,
  `unsyncedCacheCertificate` (capacity 0): `reload`, `Cache.replace/remove/add`
* `DefaultCertificateSelector` (handshake.go): `select`

Certificates are abstract: an identity (subject, version) standing for the chain hash, the
names, and the validity in whole seconds. "Due" is a parameter `due : now → Cert → Bool` of
every definition (the theorems hold for every such predicate); the driver instantiates it
with C04's decision `CM.Renew.baseDue` (`dueC04`).

Time is in seconds. A step of the model is one event of a history run to quiescence: a job
that is still alive afterwards is either blocked inside the issuer (`held`) or asleep in
`doWithRetry` (`sleeping t`), in both cases holding the storage lock of its subject.
-/
namespace CM.Maintain

abbrev Name := Nat

structure CertId where
  name : Name
  ver : Nat
  deriving DecidableEq, Repr

structure Cert where
  id : CertId
  names : List Name
  nb : Int
  na : Int
  deriving DecidableEq, Repr

/-- a cache entry: the certificate and the `managed` flag -/
structure Entry where
  cert : Cert
  managed : Bool
  deriving DecidableEq, Repr

/-- `Cache.cache` (entries, keyed by hash) and `Cache.cacheIndex` (name → hashes) -/
structure Cache where
  entries : List Entry
  index : Name → List CertId

namespace Cache

def empty : Cache := ⟨[], fun _ => []⟩

def has (c : Cache) (id : CertId) : Bool := c.entries.any (fun e => e.cert.id == id)

def find? (c : Cache) (id : CertId) : Option Entry := c.entries.find? (fun e => e.cert.id == id)

/-- `removeCertificate`: every mention of the hash leaves the rows of the certificate's
names; the entry is deleted -/
def remove (c : Cache) (x : Cert) : Cache :=
  { entries := c.entries.filter (fun e => e.cert.id != x.id)
    index := fun n => if n ∈ x.names then (c.index n).filter (fun i => i != x.id) else c.index n }

/-- `unsyncedCacheCertificate` (unlimited capacity): no-op when the hash is present -/
def add (c : Cache) (e : Entry) : Cache :=
  if c.has e.cert.id then c else
  { entries := c.entries ++ [e]
    index := fun n => c.index n ++ List.replicate (e.cert.names.count n) e.cert.id }

/-- `replaceCertificate` -/
def replace (c : Cache) (old : Cert) (new : Entry) : Cache := (c.remove old).add new

/-- `getAllMatchingCerts` -/
def row (c : Cache) (n : Name) : List Entry := (c.index n).filterMap c.find?

end Cache

def expiredAt (now : Int) (c : Cert) : Bool := decide (now > c.na + 1)

def validAt (now : Int) (c : Cert) : Bool := decide (c.nb < now) && decide (now < c.na + 1)

def selectLoop (now : Int) : List Entry → Entry → Entry
  | [], best => best
  | e :: rest, _ => if validAt now e.cert then e else selectLoop now rest e

/-- `DefaultCertificateSelector` for a client that supports every choice -/
def select (now : Int) : List Entry → Option Entry
  | [] => none
  | [e] => some e
  | e :: rest => some (selectLoop now (e :: rest) e)

/-- the hash `GetCertificate` serves for a name -/
def served (now : Int) (c : Cache) (n : Name) : Option CertId :=
  (select now (c.row n)).map (fun e => e.cert.id)

/-! ### storage, issuer, jobs -/

inductive Stored
  | none | corrupt | ok (c : Cert)
  deriving DecidableEq, Repr

/-- behaviour of instance 0's issuer for a subject -/
inductive Mode
  | ok | hard | soft | hold
  deriving DecidableEq, Repr

inductive JobKind
  | pass (old : Cert)     -- closure of queueRenewalTask
  | mrenew (c : Cert)     -- manageOne's `renew`, certificate due
  | mforce (c : Cert)     -- manageOne's `renew`, certificate revoked: forceRenew
  | mobtain               -- manageOne's `obtain`
  deriving DecidableEq, Repr

inductive Phase
  | held | sleeping (t : Int)
  deriving DecidableEq, Repr

structure Job where
  subj : Name               -- subject of the renewal: lock `issue_cert_<subj>`, CSR name
  jname : Option Name       -- job-manager name `renew_<n>`; none = "" (no de-duplication)
  kind : JobKind
  start : Int               -- doWithRetry's start
  idx : Nat                 -- intervalIndex + 1
  phase : Phase
  deriving DecidableEq, Repr

inductive IssueRes
  | ok (ver : Nat) | fail | begun
  deriving DecidableEq, Repr

structure LogEntry where
  inst : Nat
  subj : Name
  res : IssueRes
  deriving DecidableEq, Repr

structure State where
  now : Int
  life : Int                       -- lifetime the issuers give
  cache : Cache                    -- instance 0's cache
  store : Name → Stored            -- shared storage: the bundle of each name
  ver : Name → Nat                 -- how many certificates the CA has made for each subject
  mode : Name → Mode
  od : Bool                        -- instance 0's config has OnDemand set
  revoked : List (CertId × Int)    -- stored Revoked staples: certificate, time of the response
  jobs : List Job                  -- the process-wide job manager (`jm`)
  log : List LogEntry              -- issuer calls of both instances
  locks : List Name                -- acquisitions of `issue_cert_<name>` (observable: storage Lock calls)
  issued : List Cert               -- ghost: every certificate ever made

def upd {α : Type} (f : Name → α) (k : Name) (v : α) : Name → α := fun n => if n = k then v else f n

def init (life : Int) : State :=
  { now := 0, life := life, cache := Cache.empty, store := fun _ => .none, ver := fun _ => 0
    mode := fun _ => .ok, od := false, revoked := [], jobs := [], log := [], locks := [], issued := [] }

/-- what runs under the C01 lock -/
inductive Core
  | renew (force : Bool) | obtain
  deriving DecidableEq, Repr

def JobKind.core : JobKind → Core
  | .pass _ => .renew false
  | .mrenew _ => .renew false
  | .mforce _ => .renew true
  | .mobtain => .obtain

inductive Res
  | done | hardErr | softErr | held
  deriving DecidableEq, Repr

def retryTable : List Int :=
  [60, 120, 120, 300, 600, 600, 600, 1200, 1200, 1200, 1200, 1800, 1800, 1800, 1800, 1800, 1800,
   3600, 3600, 3600, 7200, 7200, 10800, 10800, 21600]

def maxRetry : Int := 30 * 86400

def newCert (s : State) (k : Name) : Cert :=
  { id := ⟨k, s.ver k + 1⟩, names := [k], nb := s.now, na := s.now + s.life }

/-- a successful `Issue` followed by `saveCertResource` -/
def issue (s : State) (inst : Nat) (k : Name) : State :=
  { s with ver := upd s.ver k (s.ver k + 1), store := upd s.store k (.ok (newCert s k)),
           log := s.log ++ [⟨inst, k, .ok (s.ver k + 1)⟩], issued := s.issued ++ [newCert s k] }

def logRes (s : State) (inst : Nat) (k : Name) (r : IssueRes) : State :=
  { s with log := s.log ++ [⟨inst, k, r⟩] }

/-- `acquireLock(issue_cert_<k>)` (recorded; the lock is free whenever the model gets here) -/
def takeLock (s : State) (k : Name) : State := { s with locks := s.locks ++ [k] }

def lockHeld (s : State) (k : Name) : Bool := s.jobs.any (fun j => j.subj == k)

/-- `loadManagedCertificate` -/
def loadEntry (s : State) (k : Name) : Option Entry :=
  match s.store k with
  | .ok c => some ⟨c, true⟩
  | _ => none

/-- `reloadManagedCertificate(old)`, where `k = old.Names[0]` -/
def reload (s : State) (old : Cert) (k : Name) : State :=
  match loadEntry s k with
  | some e => { s with cache := s.cache.replace old e }
  | none => s

/-- the job's code after `renewCert`/`obtainCert` returned nil -/
def finishOk (s : State) (j : Job) : State :=
  match j.kind with
  | .pass old => reload s old j.subj
  | .mrenew c => reload s c (c.names.headD j.subj)
  | .mforce c => reload s c j.subj
  | .mobtain =>
    match loadEntry s j.subj with
    | some e => { s with cache := s.cache.add e }
    | none => s

/-- … and after it returned an error -/
def finishFail (s : State) (j : Job) : State :=
  match j.kind with
  | .pass old => if s.od then { s with cache := s.cache.remove old } else s
  | .mforce c => { s with cache := s.cache.remove c }
  | _ => s

section
variable (due : Int → Cert → Bool)

/-- `managedCertNeedsRenewal` on a stored bundle (unparseable ⇒ true) -/
def storedDue (now : Int) : Stored → Bool
  | .ok c => due now c
  | _ => true

/-- does this attempt reach the issuer?  `none`: the resource could not be loaded -/
def needIssue (s : State) (k : Name) : Core → Option Bool
  | .obtain =>
    match s.store k with
    | .none => some true
    | _ => some false
  | .renew force =>
    match s.store k with
    | .none => none
    | st => some (force || storedDue due s.now st)

/-- one run of the function `f` inside `renewCert` / `obtainCert` (instance 0) -/
def attempt (s : State) (k : Name) (core : Core) : Res × State :=
  match needIssue due s k core with
  | none => (.softErr, s)
  | some false => (.done, s)
  | some true =>
    match s.mode k with
    | .ok => (.done, issue s 0 k)
    | .hard => (.hardErr, logRes s 0 k .fail)
    | .soft => (.softErr, logRes s 0 k .fail)
    | .hold => (.held, logRes s 0 k .begun)

/-- `doWithRetry` after an attempt, and the rest of the job -/
def settle (s : State) (j : Job) (r : Res) : State :=
  match r with
  | .done => finishOk s j
  | .hardErr => finishFail s j
  | .held => { s with jobs := s.jobs ++ [{ j with phase := .held }] }
  | .softErr =>
    if s.now - j.start < maxRetry then
      { s with jobs := s.jobs ++ [{ j with idx := min (j.idx + 1) retryTable.length,
                                            phase := .sleeping (s.now + retryTable.getD (min (j.idx + 1) retryTable.length - 1) 0) }] }
    else finishFail s j     -- "final attempt; giving up": the last error is returned

/-- run a job (which is not in the table) from an attempt on -/
def runJob (s : State) (j : Job) : State :=
  settle (attempt due s j.subj j.kind.core).2 j (attempt due s j.subj j.kind.core).1

/-- `jm.Submit` followed by the start of the job (there is always a free worker) -/
def submit (s : State) (j : Job) : State :=
  match j.jname with
  | some n => if s.jobs.any (fun j' => j'.jname == some n) then s else runJob due (takeLock s j.subj) j
  | none => runJob due (takeLock s j.subj) j

/-! ### the maintenance pass -/

structure Plan where
  reload : List Cert
  renew : List Cert
  del : List Cert

/-- `certList.insert` -/
def insertCert (l : List Cert) (c : Cert) : List Cert :=
  if l.any (fun x => x.id == c.id) then l else l ++ [c]

/-- which queue the loop under `certCache.mu.RLock()` puts a cache entry on -/
inductive Queue
  | skip | del | renew | reload
  deriving DecidableEq, Repr

/-- the decisions of the loop body, in source order: unmanaged ⇒ skip; no names ⇒ delete
queue; on-demand config ⇒ skip; not due ⇒ skip; storage check
(`managedCertInStorageNeedsRenewal`): error or still due ⇒ renew queue, else reload queue -/
def classify (s : State) (e : Entry) : Queue :=
  if !e.managed then .skip else
  match e.cert.names with
  | [] => .del
  | k :: _ =>
    if s.od then .skip else
    if !due s.now e.cert then .skip else
    match s.store k with
    | .none => .renew
    | st => if storedDue due s.now st then .renew else .reload

def scanStep (s : State) (p : Plan) (e : Entry) : Plan :=
  match classify due s e with
  | .skip => p
  | .del => { p with del := p.del ++ [e.cert] }
  | .renew => { p with renew := insertCert p.renew e.cert }
  | .reload => { p with reload := p.reload ++ [e.cert] }

def scan (s : State) : Plan := s.cache.entries.foldl (scanStep due s) ⟨[], [], []⟩

def reloadOld (s : State) (old : Cert) : State := reload s old (old.names.headD 0)

def passJob (s : State) (old : Cert) : Job :=
  { subj := old.names.headD 0, jname := some (old.names.headD 0), kind := .pass old
    start := s.now, idx := 0, phase := .held }

def submitPass (s : State) (old : Cert) : State := submit due s (passJob s old)

def removeOld (s : State) (c : Cert) : State := { s with cache := s.cache.remove c }

/-- after `RUnlock`: reload queue, renew queue, delete queue -/
def exec (s : State) (p : Plan) : State :=
  p.del.foldl removeOld (p.renew.foldl (submitPass due) (p.reload.foldl reloadOld s))

def pass (s : State) : State := exec due s (scan due s)

/-! ### manageOne -/

inductive LoadRes
  | ok | notexist | othererr
  deriving DecidableEq, Repr

inductive ManageAct
  | nothing           -- already managed
  | error             -- load failed with something else than not-exist
  | obtainThenCache   -- nothing in storage
  | cacheOnly         -- loaded and cached; not due, not revoked
  | cacheThenRenew    -- loaded and cached; due: renew, then reload
  | cacheThenForce    -- loaded and cached; revoked: forceRenew
  deriving DecidableEq, Repr

def manageDecision (alreadyManaged : Bool) (load : LoadRes) (revoked dueNow : Bool) : ManageAct :=
  if alreadyManaged then .nothing else
  match load with
  | .othererr => .error
  | .notexist => .obtainThenCache
  | .ok => if revoked then .cacheThenForce else if dueNow then .cacheThenRenew else .cacheOnly

inductive Out
  | dash | ok | err | busy | skip | none | done | noop | issued
  deriving DecidableEq, Repr

def revokedNow (s : State) (c : Cert) : Bool :=
  !expiredAt s.now c &&
    s.revoked.any (fun p => p.1 == c.id && decide (2 * s.now < 2 * p.2 + (c.na - p.2)))

def everRevoked (s : State) (k : Name) : Bool := s.revoked.any (fun p => p.1.name == k)

def alreadyManaged (s : State) (k : Name) : Bool := (s.cache.row k).any (fun e => e.managed)

def loadRes (s : State) (k : Name) (fault : Bool) : LoadRes :=
  if fault then .othererr else
  match s.store k with
  | .none => .notexist
  | .corrupt => .othererr
  | .ok _ => .ok

/-- the certificate `CacheManagedCertificate` loads (meaningful when the load succeeds) -/
def storedCert (s : State) (k : Name) : Cert :=
  match s.store k with
  | .ok c => c
  | _ => newCert s k

def mkJob (s : State) (subj : Name) (jname : Option Name) (kind : JobKind) : Job :=
  { subj := subj, jname := jname, kind := kind, start := s.now, idx := 0, phase := .held }

def okIf (b : Bool) : Out := if b then .ok else .err

/-- `manageAll` for one name, then `manageOne` -/
def manage (s : State) (k : Name) (async fault : Bool) : State × Out :=
  if s.od then (s, .ok) else
  if lockHeld s k then (s, .busy) else
  if !async && (s.mode k == .hold || (s.mode k == .soft && everRevoked s k)) then (s, .skip) else
  let c := storedCert s k
  match manageDecision (alreadyManaged s k) (loadRes s k fault) (revokedNow s c) (due s.now c) with
  | .nothing => (s, .ok)
  | .error => (s, .err)
  | .cacheOnly => ({ s with cache := s.cache.add ⟨c, true⟩ }, .ok)
  | .obtainThenCache =>
    if async then (submit due s (mkJob s k none .mobtain), .ok) else
    let a := attempt due (takeLock s k) k .obtain
    match a.1 with
    | .done =>
      match loadEntry a.2 k with
      | some e => ({ a.2 with cache := a.2.cache.add e }, .ok)
      | none => (a.2, .err)
    | _ => (a.2, .err)
  | .cacheThenRenew =>
    let s1 := { s with cache := s.cache.add ⟨c, true⟩ }
    if async then (submit due s1 (mkJob s1 k (some k) (.mrenew c)), .ok) else
    let a := attempt due (takeLock s1 k) k (.renew false)
    match a.1 with
    | .done => (reload a.2 c (c.names.headD k), okIf (loadEntry a.2 (c.names.headD k)).isSome)
    | _ => (a.2, .err)
  | .cacheThenForce =>
    let s1 := { s with cache := s.cache.add ⟨c, true⟩ }
    let subj := c.names.headD k
    if async then (submit due s1 (mkJob s1 subj (some k) (.mforce c)), .ok) else
    let a := attempt due (takeLock s1 subj) subj (.renew true)
    (settle a.2 (mkJob s1 subj none (.mforce c)) a.1,
     okIf (a.1 == .done && (loadEntry a.2 subj).isSome))

/-! ### the other events of a history -/

def Job.wakeAt (j : Job) : Option Int :=
  match j.phase with
  | .sleeping t => some t
  | .held => none

def minWake : List Job → Option Int
  | [] => none
  | j :: js =>
    match j.wakeAt, minWake js with
    | some t, some u => some (min t u)
    | some t, none => some t
    | none, r => r

def takeAt (t : Int) : List Job → Option (Job × List Job)
  | [] => none
  | j :: js =>
    if j.wakeAt = some t then some (j, js)
    else (takeAt t js).map (fun p => (p.1, j :: p.2))

def takeHeld (k : Name) : List Job → Option (Job × List Job)
  | [] => none
  | j :: js =>
    if j.subj = k ∧ j.phase = .held then some (j, js)
    else (takeHeld k js).map (fun p => (p.1, j :: p.2))

/-- virtual time passes: the retry timers that fall due fire in order -/
def advTo : Nat → State → Int → State
  | 0, s, target => { s with now := target }
  | fuel + 1, s, target =>
    match minWake s.jobs with
    | none => { s with now := target }
    | some t =>
      if t ≤ target then
        match takeAt t s.jobs with
        | some (j, rest) => advTo fuel (runJob due { s with now := t, jobs := rest } j) target
        | none => { s with now := target }
      else { s with now := target }

/-- a held `Issue` call returns -/
def release (s : State) (k : Name) (r : Mode) : State × Out :=
  match takeHeld k s.jobs with
  | none => (s, .none)
  | some (j, rest) =>
    match r with
    | .ok => (settle (issue { s with jobs := rest } 0 k) j .done, .done)
    | .hard => (settle (logRes { s with jobs := rest } 0 k .fail) j .hardErr, .done)
    | _ => (settle (logRes { s with jobs := rest } 0 k .fail) j .softErr, .done)

/-- instance 1: `RenewCertSync` / `ObtainCertSync` (its issuer works) -/
def other (s : State) (k : Name) (obtain : Bool) : State × Out :=
  if lockHeld s k then (s, .busy) else
  match needIssue due s k (if obtain then .obtain else .renew false) with
  | none => (takeLock s k, .err)
  | some false => (if obtain then s else takeLock s k, .noop)   -- obtainCert returns before the lock when the bundle exists
  | some true => (issue (takeLock s k) 1 k, .issued)

/-- `Cache.RemoveManaged` for one subject -/
def removeManaged (s : State) (k : Name) : State :=
  ((s.cache.row k).filter (fun e => e.managed)).foldl (fun s e => removeOld s e.cert) s

def revoke (s : State) (k : Name) : State × Out :=
  match s.store k with
  | .ok c => if s.now < c.na then ({ s with revoked := (c.id, s.now) :: s.revoked }, .done) else (s, .none)
  | _ => (s, .none)

def corrupt (s : State) (k : Name) : State :=
  match s.store k with
  | .none => s
  | _ => { s with store := upd s.store k .corrupt }

def unmanaged (s : State) (k : Name) (life : Int) : State :=
  let c : Cert := { id := ⟨k, s.ver k + 1⟩, names := [k], nb := s.now, na := s.now + life }
  { s with ver := upd s.ver k (s.ver k + 1), cache := s.cache.add ⟨c, false⟩, issued := s.issued ++ [c] }

inductive Ev
  | adv (d : Int)
  | pass
  | pass2   -- two passes at once, the issuer answering after both returned: every job of the
            -- one is running when the other submits, so the second adds nothing (`submit`)
  | manage (k : Name) (async fault : Bool)
  | mode (k : Name) (m : Mode)
  | rel (k : Name) (r : Mode)
  | oren (k : Name)
  | oobt (k : Name)
  | del (k : Name)
  | corrupt (k : Name)
  | rm (k : Name)
  | revoke (k : Name)
  | od (b : Bool)
  | unm (k : Name) (life : Int)
  deriving Repr

def advFuel : Nat := 100000

def step (s : State) : Ev → State × Out
  | .adv d => (advTo due advFuel s (s.now + d), .dash)
  | .pass => (pass due s, .dash)
  | .pass2 => (pass due s, .dash)
  | .manage k a f => manage due s k a f
  | .mode k m => ({ s with mode := upd s.mode k m }, .dash)
  | .rel k r => release s k r
  | .oren k => other due s k false
  | .oobt k => other due s k true
  | .del k => ({ s with store := upd s.store k .none }, .dash)
  | .corrupt k => (corrupt s k, .dash)
  | .rm k => (removeManaged s k, .dash)
  | .revoke k => revoke s k
  | .od b => ({ s with od := b }, .dash)
  | .unm k l => (unmanaged s k l, .dash)

def run (s : State) (evs : List Ev) : State := evs.foldl (fun s e => (step due s e).1) s

end

/-! ### the C04 decision as the `due` predicate (what the driver uses) -/

def renewInterval : Int := 600

def dueC04 (now : Int) (c : Cert) : Bool :=
  CM.Renew.baseDue { now := now * CM.Renew.sec, nb := c.nb * CM.Renew.sec, na := c.na * CM.Renew.sec
                     rnum := 0, rden := 1, interval := renewInterval * CM.Renew.sec, disableARI := true
                     window := none, selected := none, rnd := 0 }

end CM.Maintain
