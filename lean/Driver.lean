import CM.Lib.Wire
import CM.Drv.C11
/-! `cmdriver`: one request per line on stdin, one answer per line on stdout. -/
open CM.Wire

def dispatch (line : String) : String :=
  let (args, impl) := splitImpl (words line)
  match args with
  | "C11" :: rest => CM.Drv.C11.handle rest impl
  | _ => bad

partial def loop (h : IO.FS.Stream) (out : IO.FS.Stream) : IO Unit := do
  let line ← h.getLine
  if line.isEmpty then return ()
  out.putStrLn (dispatch line.trimAsciiEnd.toString)
  loop h out

def main : IO Unit := do
  let out ← IO.getStdout
  loop (← IO.getStdin) out
  out.flush
