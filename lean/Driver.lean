import CM.Lib.Wire
import CM.Drv.C01
import CM.Drv.C02
import CM.Drv.C03
import CM.Drv.C04
import CM.Drv.C05
import CM.Drv.C06
import CM.Drv.C07
import CM.Drv.C08
import CM.Drv.C09
import CM.Drv.C10
import CM.Drv.C11
import CM.Drv.C12
import CM.Drv.C13
import CM.Drv.C14
import CM.Drv.C15
import CM.Drv.C16
import CM.Drv.C17
import CM.Drv.C18
import CM.Drv.C19
import CM.Drv.C20
/-! `cmdriver`: one request per line on stdin, one answer per line on stdout.
Request: `<Cxx> <op> <arg>* [=> <impl output token>*]`; answer: `<model> | <spec> | <tag>`. -/
open CM.Wire

def dispatch (line : String) : String :=
  let (args, impl) := splitImpl (words line)
  match args with
  | "C01" :: rest => CM.Drv.C01.handle rest impl
  | "C02" :: rest => CM.Drv.C02.handle rest impl
  | "C03" :: rest => CM.Drv.C03.handle rest impl
  | "C04" :: rest => CM.Drv.C04.handle rest impl
  | "C05" :: rest => CM.Drv.C05.handle rest impl
  | "C06" :: rest => CM.Drv.C06.handle rest impl
  | "C07" :: rest => CM.Drv.C07.handle rest impl
  | "C08" :: rest => CM.Drv.C08.handle rest impl
  | "C09" :: rest => CM.Drv.C09.handle rest impl
  | "C10" :: rest => CM.Drv.C10.handle rest impl
  | "C11" :: rest => CM.Drv.C11.handle rest impl
  | "C12" :: rest => CM.Drv.C12.handle rest impl
  | "C13" :: rest => CM.Drv.C13.handle rest impl
  | "C14" :: rest => CM.Drv.C14.handle rest impl
  | "C15" :: rest => CM.Drv.C15.handle rest impl
  | "C16" :: rest => CM.Drv.C16.handle rest impl
  | "C17" :: rest => CM.Drv.C17.handle rest impl
  | "C18" :: rest => CM.Drv.C18.handle rest impl
  | "C19" :: rest => CM.Drv.C19.handle rest impl
  | "C20" :: rest => CM.Drv.C20.handle rest impl
  | _ => bad

partial def loop (h : IO.FS.Stream) (out : IO.FS.Stream) : IO Unit := do
  let line ← h.getLine
  if line.isEmpty then return ()
  out.putStrLn (dispatch line.trimAsciiEnd.toString)
  loop h out

def main : IO Unit := do
  let out ← IO.getStdout
  loop (← IO.getStdin) out
  out.flush
