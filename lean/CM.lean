-- This module serves as the root of the `CM` library.
-- Import modules here that should be built as part of the library.
import CM.Basic
