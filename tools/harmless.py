#!/usr/bin/env python3
"""Run every check against behaviour-preserving refactorings kept under /verif/harmless/<id>/patch.diff.
A check that alarms on one of them raises a false alarm (its tie is too brittle) — listed here.
Applies each patch to /repo (git apply), runs all quick checks, restores /repo and the evidence files."""
import json, os, subprocess, sys, concurrent.futures as cf
V = os.path.dirname(os.path.dirname(os.path.abspath(__file__)))
REPO = "/repo"
def sh(cmd, **kw): return subprocess.run(cmd, capture_output=True, text=True, **kw)
def main():
    ids = [a for a in sys.argv[1:] if not a.startswith("-")] or sorted(os.listdir(os.path.join(V, "harmless")))
    props = [c["property_id"] for c in json.load(open(os.path.join(V, "MANIFEST.json")))["checks"]]
    if os.environ.get("HARMLESS_PROPS"):
        props = [p for p in props if p in os.environ["HARMLESS_PROPS"].split(",")]
    if sh(["git", "-C", REPO, "status", "--porcelain"]).stdout.strip():
        print("refusing: /repo is not clean"); return 2
    saved = {}
    for p in props:
        ef = os.path.join(V, "evidence", p + ".json")
        if os.path.exists(ef): saved[ef] = open(ef).read()
    total = 0
    for i in ids:
        d = os.path.join(V, "harmless", i)
        if not os.path.isdir(d): continue
        r = sh(["git", "-C", REPO, "apply", os.path.join(d, "patch.diff")])
        if r.returncode != 0:
            print(i, "PATCH DOES NOT APPLY", r.stderr.strip()[:200]); continue
        res = {}
        try:
            sh([os.path.join(V, "check"), "setup"], cwd=V)
            def run(p):
                c = sh([os.path.join(V, "check"), "run", p], cwd=V)
                vio = [l for l in c.stdout.splitlines() if l.startswith("VIOLATION")]
                out = {"exit": c.returncode, "violation_line": vio[0] if vio else ""}
                if vio:
                    try:
                        rep = json.load(open(vio[0].split("replay=")[1].split()[0]))
                        out["signatures"] = list(rep.get("signatures", {}).keys())[:6]
                        out["no_longer_checks"] = [b.get("name") for b in rep.get("no_longer_checks", rep.get("broken", []))][:8]
                    except Exception: pass
                return p, out
            with cf.ThreadPoolExecutor(5) as ex:
                for p, out in ex.map(run, props): res[p] = out
        finally:
            sh(["git", "-C", REPO, "checkout", "--", "."]); sh(["git", "-C", REPO, "clean", "-fdq"])
            for ef, txt in saved.items(): open(ef, "w").write(txt)
        alarms = {p: v for p, v in res.items() if v["exit"] != 0}
        total += len(alarms)
        json.dump({"id": i, "alarms": alarms, "clean": sorted(p for p in res if p not in alarms)}, open(os.path.join(d, "result.json"), "w"), indent=1)
        print(i, "false alarms:", {p: (v.get("signatures") or v.get("no_longer_checks")) for p, v in alarms.items()} or "none", flush=True)
    return 1 if total else 0
if __name__ == "__main__": sys.exit(main())
