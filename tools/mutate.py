#!/usr/bin/env python3
"""Mechanical mutation sweep: how sensitive are the checks to small changes of the code?

Generates first-order mutants of the non-test Go files the properties are anchored in
(comparison flips, boundary shifts, && <-> ||, negation dropped, statement deleted — unlock /
delete / close / defer / store calls —, `return err` -> `return nil`, constant +-1), applies
each to a private worktree of /repo (never to /repo), builds it, and runs the quick checks of
the properties anchored in the mutated file (VERIF_REPO=<worktree>, VERIF_NO_EVIDENCE=1).
A mutant that no check kills is run against the repository's own test suite: if the suite
kills it, it is not a valid "compiles and passes the tests" change; otherwise it SURVIVED and
is listed for triage (equivalent mutant, property-irrelevant, or a gap).

usage: tools/mutate.py [-n N] [-j J] [--seed S] [--files f1.go,f2.go] [--out DIR]
"""
import json, os, random, re, subprocess, sys, time, hashlib, concurrent.futures as cf, threading
V = os.path.dirname(os.path.dirname(os.path.abspath(__file__)))
REPO = "/repo"
GOENV = dict(os.environ, GOFLAGS="-mod=mod", GOPROXY="off", GOSUMDB="off", GOTOOLCHAIN="local")

def sh(cmd, **kw):
    return subprocess.run(cmd, capture_output=True, text=True, **kw)

def anchors():
    m = {}
    for l in open(os.path.join(V, "properties.jsonl")):
        p = json.loads(l)
        for f in p["anchors"]["files"]:
            m.setdefault(f, []).append(p["id"])
    return m

OPS = [
    ("eq", re.compile(r" == "), " != "), ("ne", re.compile(r" != "), " == "),
    ("lt", re.compile(r" < "), " <= "), ("le", re.compile(r" <= "), " < "),
    ("gt", re.compile(r" > "), " >= "), ("ge", re.compile(r" >= "), " > "),
    ("and", re.compile(r" && "), " || "), ("or", re.compile(r" \|\| "), " && "),
    ("neg", re.compile(r"\bif !"), "if "), ("true", re.compile(r"\btrue\b"), "false"), ("false", re.compile(r"\bfalse\b"), "true"),
    ("reterr", re.compile(r"\breturn err$"), "return nil"),
    ("plus1", re.compile(r"\b([2-9]|[1-9][0-9]+)\b(?! \* time|\.)"), None),
]
ONLY_OPS = set(filter(None, os.environ.get("MUTATE_OPS", "").split(",")))
DELETABLE = re.compile(r"^\s*(defer\s+)?[A-Za-z_][\w.\[\]]*(Unlock|RUnlock|Lock|Stop|Close|Delete|Store|cancel|unblockWaiters|close|delete|removeCertificate|Wait|Done)\w*\(.*\)\s*$")

def in_func_lines(src):
    """indices of lines inside function bodies (crude: between a line starting with 'func ' and the closing '}' at column 0)"""
    inside, out = False, []
    for i, l in enumerate(src):
        if l.startswith("func "):
            inside = True
            continue
        if inside and l.startswith("}"):
            inside = False
            continue
        if inside:
            out.append(i)
    return out

def gen(file, src, rng):
    ms = []
    for i in in_func_lines(src):
        l = src[i]
        s = l.strip()
        if not s or s.startswith("//") or "zap." in l or "logger." in l.lower() or "log." in l or "fmt.Errorf" in l or "Debug(" in l:
            continue
        code = l.split("//")[0].rstrip()
        for name, rx, rep in OPS:
            for m in rx.finditer(code):
                if '"' in code[:m.start()] and code[:m.start()].count('"') % 2 == 1:
                    continue  # inside a string literal
                if name == "plus1":
                    n = int(m.group(0))
                    new = code[:m.start()] + str(n + 1) + code[m.end():]
                else:
                    new = code[:m.start()] + rep + code[m.end():]
                ms.append({"file": file, "line": i + 1, "op": name, "old": l.rstrip("\n"), "new": new})
        # swap with the next line: two simple statements of the same indentation (a call or an assignment each)
        if i + 1 < len(src):
            nxt = src[i + 1].split("//")[0].rstrip()
            simple = lambda c: bool(re.match(r"^\s*[A-Za-z_][\w.\[\]\(\), ]*(\(.*\)|\s*(:=|=|\+=|-=)\s*.+)$", c)) and not re.match(r"^\s*(if|for|switch|select|case|return|go|defer|func|var|const|type)\b", c) and not c.rstrip().endswith("{")
            ind = lambda c: len(c) - len(c.lstrip())
            if "swap" in ONLY_OPS or not ONLY_OPS:
                if simple(code) and simple(nxt) and ind(code) == ind(nxt) and code.strip() != nxt.strip():
                    ms.append({"file": file, "line": i + 1, "op": "swap", "old": l.rstrip("\n"), "new": src[i + 1].rstrip("\n"), "old2": src[i + 1].rstrip("\n"), "new2": l.rstrip("\n")})
        if DELETABLE.match(code):
            ms.append({"file": file, "line": i + 1, "op": "del", "old": l.rstrip("\n"), "new": re.match(r"^\s*", l).group(0) + "// (deleted)"})
    if ONLY_OPS:
        ms = [m for m in ms if m["op"] in ONLY_OPS]
    rng.shuffle(ms)
    return ms

class Worker:
    def __init__(self, i):
        self.dir = f"/tmp/mw/{i}"
        sh(["git", "-C", REPO, "worktree", "remove", "--force", self.dir])
        os.makedirs("/tmp/mw", exist_ok=True)
        r = sh(["git", "-C", REPO, "worktree", "add", "--detach", self.dir, "HEAD"])
        if r.returncode != 0:
            raise SystemExit(r.stderr)
    def close(self):
        sh(["git", "-C", REPO, "worktree", "remove", "--force", self.dir])

def run_mutant(w, m, props):
    path = os.path.join(w.dir, m["file"])
    src = open(path).read().split("\n")
    if src[m["line"] - 1].rstrip() != m["old"].rstrip():
        return dict(m, result="stale")
    src[m["line"] - 1] = m["new"]
    if "new2" in m:
        if src[m["line"]].rstrip() != m["old2"].rstrip():
            return dict(m, result="stale")
        src[m["line"]] = m["new2"]
    open(path, "w").write("\n".join(src))
    try:
        b = sh(["go", "build", "./..."], cwd=w.dir, env=dict(os.environ, GOFLAGS="-mod=mod", GOPROXY="off"))
        if b.returncode != 0:
            return dict(m, result="does-not-build")
        env = dict(os.environ, VERIF_REPO=w.dir, VERIF_NO_EVIDENCE="1")
        for p in props:
            t0 = time.time()
            c = sh([os.path.join(V, "check"), "run", p], cwd=V, env=env)
            vio = [l for l in c.stdout.splitlines() if l.startswith("VIOLATION")]
            if c.returncode != 0 or vio:
                how = "no-failing-input-found" if vio and vio[0].endswith("no-failing-input-found") else "failing-input"
                sig = []
                if vio:
                    try:
                        rep = json.load(open(vio[0].split("replay=")[1].split()[0]))
                        sig = list(rep.get("signatures", {}).keys())[:3] or [b.get("name") for b in rep.get("no_longer_checks", [])][:3]
                        os.remove(vio[0].split("replay=")[1].split()[0])
                    except Exception:
                        pass
                return dict(m, result="killed", by=p, how=how, sig=sig, s=round(time.time() - t0, 1))
        # survived the checks: does the repository's own suite kill it?
        t = sh(["go", "test", "-mod=mod", "-vet=off", "-count=1", "-skip", "TestLookupNameserversOK|TestFindZoneByFqdn", "./..."], cwd=w.dir,
               env=dict(os.environ, GOPROXY="off"), timeout=900)
        if t.returncode != 0:
            return dict(m, result="killed-by-suite")
        return dict(m, result="SURVIVED", checks=props)
    finally:
        sh(["git", "-C", w.dir, "checkout", "--", "."])

def main():
    a = sys.argv[1:]
    n, j, seed, files, out = 40, 4, 1, None, os.path.join(V, "mutation")
    while a:
        x = a.pop(0)
        if x == "-n": n = int(a.pop(0))
        elif x == "-j": j = int(a.pop(0))
        elif x == "--seed": seed = int(a.pop(0))
        elif x == "--files": files = a.pop(0).split(",")
        elif x == "--out": out = a.pop(0)
    rng = random.Random(seed)
    anc = anchors()
    files = files or sorted(f for f in anc if os.path.exists(os.path.join(REPO, f)) and not f.endswith("_test.go"))
    muts = []
    per = max(1, n // len(files))
    for f in files:
        src = open(os.path.join(REPO, f)).read().split("\n")
        muts += gen(f, src, rng)[:per]
    rng.shuffle(muts)
    muts = muts[:n]
    os.makedirs(out, exist_ok=True)
    sh([os.path.join(V, "check"), "setup"], cwd=V)
    workers = [Worker(i) for i in range(j)]
    free, lock, results = list(workers), threading.Lock(), []
    def job(m):
        with lock:
            w = free.pop()
        try:
            r = run_mutant(w, m, anc.get(m["file"], []))
        except Exception as e:
            r = dict(m, result="error", err=str(e)[:200])
        finally:
            with lock:
                free.append(w)
        print(f'{r["result"]:16} {m["file"]}:{m["line"]} {m["op"]:6} {r.get("by", "")} {r.get("how", "")} | {m["new"].strip()[:90]}', flush=True)
        return r
    try:
        with cf.ThreadPoolExecutor(j) as ex:
            results = list(ex.map(job, muts))
    finally:
        for w in workers:
            w.close()
        sh(["git", "-C", REPO, "worktree", "prune"])
    tag = f"seed{seed}-n{len(muts)}"
    json.dump(results, open(os.path.join(out, f"sweep-{tag}.json"), "w"), indent=1)
    c = {}
    for r in results:
        c[r["result"]] = c.get(r["result"], 0) + 1
    valid = c.get("killed", 0) + c.get("SURVIVED", 0)
    print(f"mutation sweep {tag}: {c}; killed by the checks {c.get('killed', 0)}/{valid} of the mutants that build and pass the suite or are killed by a check")
    return 0

if __name__ == "__main__":
    sys.exit(main())
