#!/usr/bin/env python3
"""Confirm candidates for seeded changes (written by sub-agents into /tmp/mut/out/<id>/) myself,
each in a scratch worktree of /repo under /tmp/mut/cf_<id> (removed afterwards):
  1. the demonstration passes on the pristine tree,
  2. the patch applies, the library builds, `go vet` is quiet,
  3. the demonstration FAILS with the patch,
  4. the pinned suite (stable_pass of /root/.vp/BASELINE.json) still passes with the patch.
Only candidates that pass all four are copied to /verif/seeded/<id>/ (patch.diff, demo, meta.json
with a `confirmed` record).   usage: tools/confirm_seed.py [-j N] [ids…]"""
import json, os, shutil, subprocess, sys, glob, time
from concurrent.futures import ThreadPoolExecutor
V = os.path.dirname(os.path.dirname(os.path.abspath(__file__)))
OUT = "/tmp/mut/out"
ENV = dict(os.environ, GOFLAGS="-mod=mod", GOPROXY="off", GOSUMDB="off", GOTOOLCHAIN="local")
BASE = json.load(open("/root/.vp/BASELINE.json"))["stable_pass"]

def sh(cmd, cwd, timeout=1500):
    try:
        p = subprocess.run(cmd, cwd=cwd, env=ENV, capture_output=True, text=True, timeout=timeout)
        return p.returncode, p.stdout + p.stderr
    except subprocess.TimeoutExpired:
        return 124, "timeout"

def gotest(wt, run, pkg_dir):
    # demos may need testing/synctest: use the newer toolchain for them
    return sh(["go1.26.8", "test", "-vet=off", "-count=1", "-run", run, "."], os.path.join(wt, pkg_dir), 600)

def confirm(i):
    src = os.path.join(OUT, i)
    rec = {"id": i}
    try:
        meta = json.load(open(os.path.join(src, "meta.json")))
    except Exception as e:
        return dict(rec, ok=False, why="meta.json: %s" % e)
    demos = glob.glob(os.path.join(src, "*_test.go"))
    if not demos or not os.path.exists(os.path.join(src, "patch.diff")):
        return dict(rec, ok=False, why="patch or demo missing")
    wt = "/tmp/mut/cf_" + i
    subprocess.run(["git", "-C", "/repo", "worktree", "remove", "--force", wt], capture_output=True)
    subprocess.run(["git", "-C", "/repo", "worktree", "add", "-q", "--detach", wt, "HEAD"], capture_output=True)
    try:
        pkg_dir = meta.get("demo_dir", ".")
        for d in demos:
            # a demo for internal/atomicfile says so in its package clause
            txt = open(d).read()
            dst = pkg_dir
            if "package atomicfile" in txt:
                dst = pkg_dir = "internal/atomicfile"
            shutil.copy(d, os.path.join(wt, dst))
        run = meta.get("demo_test", "Demo")
        rc, out = gotest(wt, run, pkg_dir)
        if rc != 0 or "no tests to run" in out:
            return dict(rec, ok=False, why="demo does not pass on the pristine tree", log=out[-600:])
        rc, out = sh(["git", "apply", os.path.join(src, "patch.diff")], wt)
        if rc != 0:
            return dict(rec, ok=False, why="patch does not apply", log=out[-300:])
        rc, out = sh(["go", "build", "./..."], wt)
        if rc != 0:
            return dict(rec, ok=False, why="does not build", log=out[-300:])
        rc, out = sh(["go", "vet", "."], wt)
        rec["vet_quiet"] = rc == 0
        rc, out = gotest(wt, run, pkg_dir)
        if rc == 0:
            return dict(rec, ok=False, why="demo passes WITH the patch")
        rec["demo_fail_tail"] = out[-300:]
        for d in demos:   # the suite runs without the demo
            os.remove(os.path.join(wt, pkg_dir if "package atomicfile" in open(d).read() else meta.get("demo_dir", "."), os.path.basename(d)))
        rc, out = sh(["go", "test", "-json", "-vet=off", "-count=1", "-timeout", "25m", "./..."], wt)
        res = {}
        for line in out.splitlines():
            try:
                e = json.loads(line)
            except Exception:
                continue
            if e.get("Test") and e.get("Action") in ("pass", "fail", "skip"):
                res[e["Package"] + "::" + e["Test"]] = e["Action"]
        bad = [t for t in BASE if res.get(t) != "pass"]
        if bad:
            return dict(rec, ok=False, why="suite: " + ", ".join(bad[:4]))
        dst = os.path.join(V, "seeded", i)
        os.makedirs(dst, exist_ok=True)
        shutil.copy(os.path.join(src, "patch.diff"), dst)
        for d in demos:
            shutil.copy(d, dst)
        meta["confirmed"] = {"at": time.strftime("%Y-%m-%dT%H:%M:%S"), "by": "tools/confirm_seed.py",
                             "ran": "demo passes pristine / fails patched (go1.26.8 test -run %s); go build; go vet %s; pinned suite %d/%d stable tests pass with the patch" % (run, "quiet" if rec["vet_quiet"] else "NOT quiet", len(BASE), len(BASE))}
        json.dump(meta, open(os.path.join(dst, "meta.json"), "w"), indent=1, ensure_ascii=False)
        return dict(rec, ok=True)
    finally:
        subprocess.run(["git", "-C", "/repo", "worktree", "remove", "--force", wt], capture_output=True)
        shutil.rmtree(wt, ignore_errors=True)

def main():
    a = sys.argv[1:]
    j = 4
    if "-j" in a:
        k = a.index("-j"); j = int(a[k + 1]); del a[k:k + 2]
    ids = a or sorted(os.listdir(OUT))
    with ThreadPoolExecutor(j) as ex:
        for r in ex.map(confirm, ids):
            print(json.dumps(r)[:700], flush=True)

main()
