#!/usr/bin/env python3
"""Run the checks against the seeded property-breaking changes kept under /verif/seeded/<id>/.

For each seeded change: apply patch.diff to /repo (git apply), run the quick check of the
property it breaks (meta.json "property"; extra ones with --also), restore /repo
(git checkout -- . && git clean for added files), record seeded/<id>/result.json and print a
table. /repo must be clean before. Never commits anything in /repo."""
import json, os, subprocess, sys, time
V = os.path.dirname(os.path.dirname(os.path.abspath(__file__)))
REPO = "/repo"

def sh(cmd, **kw):
    return subprocess.run(cmd, capture_output=True, text=True, **kw)

def main():
    ids = [a for a in sys.argv[1:] if not a.startswith("--")]
    tier = "thorough" if "--thorough" in sys.argv else "quick"
    if not ids:
        ids = sorted(d for d in os.listdir(os.path.join(V, "seeded")) if os.path.isdir(os.path.join(V, "seeded", d)))
    if sh(["git", "-C", REPO, "status", "--porcelain"]).stdout.strip():
        print("refusing: /repo is not clean"); return 2
    rows = []
    for i in ids:
        d = os.path.join(V, "seeded", i)
        meta = json.load(open(os.path.join(d, "meta.json")))
        props = [meta["property"]] + meta.get("also_check", [])
        r = sh(["git", "-C", REPO, "apply", os.path.join(d, "patch.diff")])
        if r.returncode != 0:
            rows.append((i, props[0], "PATCH DOES NOT APPLY", r.stderr.strip()[:100])); continue
        res = {}
        # evidence files must describe runs against the unchanged tree: keep them aside
        saved = {}
        for p in props:
            ef = os.path.join(V, "evidence", p + ".json")
            if os.path.exists(ef):
                saved[ef] = open(ef).read()
        try:
            for p in props:
                t0 = time.time()
                c = sh([os.path.join(V, "check"), "run", p, "--tier", tier], cwd=V)
                vio = [l for l in c.stdout.splitlines() if l.startswith("VIOLATION")]
                res[p] = {"exit": c.returncode, "violation_line": vio[0] if vio else "", "summary": c.stdout.strip().splitlines()[-1] if c.stdout.strip() else "",
                          "wall_s": round(time.time() - t0, 1)}
                if vio:
                    rp = vio[0].split("replay=")[1].split()[0]
                    try:
                        rep = json.load(open(rp))
                        res[p]["replay_kind"] = rep.get("kind")
                        res[p]["signatures"] = list(rep.get("signatures", {}).keys())[:6]
                        res[p]["no_longer_checks"] = [b.get("name") for b in rep.get("no_longer_checks", rep.get("broken", []))][:6]
                    except Exception:
                        pass
        finally:
            sh(["git", "-C", REPO, "checkout", "--", "."])
            sh(["git", "-C", REPO, "clean", "-fdq"])
            for ef, txt in saved.items():
                open(ef, "w").write(txt)
        json.dump({"id": i, "tier": tier, "results": res, "at": time.strftime("%Y-%m-%dT%H:%M:%S")}, open(os.path.join(d, "result.json"), "w"), indent=1)
        for p, v in res.items():
            how = "MISSED" if v["exit"] == 0 else ("caught: " + (", ".join(v.get("signatures") or []) or "no-failing-input-found: " + ", ".join(v.get("no_longer_checks") or [])))
            rows.append((i, p, how[:150], f"{v['wall_s']}s"))
    for r in rows:
        print(" | ".join(r))
    return 0

if __name__ == "__main__":
    sys.exit(main())
