#!/usr/bin/env python3
"""Prepares the instructions for a round of fresh sub-agents that each try to break a property
(see DESIGN.md §12): one scratch worktree per property under /tmp/mut, a prompt per group that
contains only the property's text and the titles of the changes already tried.

usage: tools/mkmutprompt.py <round-number> <change-number>
"""
import json, glob, os, subprocess, sys
rnd, num = sys.argv[1], sys.argv[2]
V = os.path.dirname(os.path.dirname(os.path.abspath(__file__)))
props = {json.loads(l)['id']: json.loads(l) for l in open(os.path.join(V, 'properties.jsonl'))}
tried = {}
for d in sorted(glob.glob(os.path.join(V, 'seeded/*/meta.json'))):
    m = json.load(open(d)); tried.setdefault(m['property'], []).append(m.get('title', '')[:140])
os.makedirs('/tmp/mut/out', exist_ok=True)
for i in props:
    subprocess.run(['git', '-C', '/repo', 'worktree', 'add', '-q', '--detach', f'/tmp/mut/{i}w{rnd}', 'HEAD'])
def prompt(ids, tag):
    s = f"""You are testing how well a verification effort detects regressions in the Go library caddyserver/certmagic. For each property below you have your own scratch git worktree of the repository at /tmp/mut/<PROPERTY-ID>w{rnd} (e.g. /tmp/mut/{ids[0]}w{rnd}). Work ONLY in those worktrees; never touch /repo or /verif, never commit anything. There is no network: `export GOFLAGS=-mod=mod GOPROXY=off` and use plain `go build ./... && go test -vet=off -count=1 ./...` inside a worktree (the suite takes a minute or two; tests named TestFindZoneByFqdn*, TestLookupNameserversOK need the network and may fail — ignore exactly those). If you need virtual time (testing/synctest), the newer toolchain is available as `GOTOOLCHAIN=local go1.26.8 test ...`.

For EACH property, produce ONE change to the LIBRARY code (non-test .go files) that a plausible, well-meaning maintainer could make (an "optimisation", a "simplification", a "defensive" tweak, a refactoring that goes subtly wrong, an off-by-one, a wrong variable, a moved statement, a changed condition, a lock taken a line too late, a lost error …) such that:
  (a) the library still compiles, `go vet` is quiet, and the existing test suite still passes (apart from the network tests above);
  (b) the property, as stated, is now violated for at least one concrete input / schedule / fault sequence;
  (c) the change is small (typically 1–15 lines) and not silly: no deleting whole features, no `if name == "evil"` special cases, no renaming of exported API;
  (d) it is DIFFERENT in mechanism and location from the changes already tried for that property (listed below; this is round {rnd}, {int(num)-1} changes per property have been tried); it needs something SPECIFIC to manifest — a particular interleaving, a crash or fault at a particular point, a multi-step sequence of operations, an unusual input, or two cooperating edits at different sites that each look fine alone — not something ordinary use would expose at once; prefer places in the code that the property text mentions less prominently but that the property still depends on (helper functions, error paths, option handling, boundary conditions, rarely used configuration, interaction of two features).
For the change (use number {num}): write a small demonstration test file zz_demo_<ID>_{num}_test.go (package certmagic, in the repository root or the package concerned) that PASSES on the pristine worktree and FAILS with your change applied — it must exercise real library code and show the property being violated (not merely detect the textual change). Verify both directions yourself. Then save into /tmp/mut/out/<ID>-{num}/ : patch.diff (`git diff` of library files only, applicable with `git apply` to a pristine checkout), the demonstration test file, and meta.json with keys: property, title (one sentence), what_it_breaks (a paragraph: the failing input/schedule and why the property is violated), files, demo_test (the -run regex), suite_passes (true). Finally reset the worktree (`git checkout -- . && git clean -fdq`). Do not remove the worktrees.
IMPORTANT: the worktrees share one git repository — never use `git stash`, `git commit` or `git checkout <branch>`; to reset a worktree use only `git checkout -- . && git clean -fdq` inside it.

"""
    for i in ids:
        p = props[i]
        s += f"=== PROPERTY {i}: {p['title']}\nStatement: {p['statement']}\nQuantifier: {p['quantifier']['text']}\nWhy tests cannot settle it: {p['why_tests_cant']}\nAnchors: {json.dumps(p['anchors'])}\nAlready tried (do something else): " + "; ".join(tried.get(i, [])) + "\n\n"
    s += f"Reply at the end with one line per change: <ID>-{num}: title, and whether all verifications succeeded."
    open(f'/tmp/mut/prompt{rnd}_{tag}.txt', 'w').write(s)
ids = sorted(props)
per = int(os.environ.get('MUT_GROUP', '5'))
tags = 'abcdefghijklmnopqrst'
for k in range((len(ids) + per - 1) // per):
    prompt(ids[k*per:(k+1)*per], tags[k])
print("prompts in /tmp/mut/prompt%s_[a-%s].txt" % (rnd, tags[(len(ids) + per - 1) // per - 1]))
