#!/usr/bin/env python3
"""Regenerate MANIFEST.json's checks / not_applicable from props.json (single source)."""
import json, os
V = os.path.dirname(os.path.dirname(os.path.abspath(__file__)))
import glob
props = {os.path.basename(f)[:-5]: json.load(open(f)) for f in sorted(glob.glob(os.path.join(V, "props.d", "C*.json")))}
m = json.load(open(os.path.join(V, "MANIFEST.json")))
allids = [json.loads(l)["id"] for l in open(os.path.join(V, "properties.jsonl"))]
checks = []
for pid in sorted(props):
    c = props[pid]
    checks.append({
        "property_id": pid,
        "quick_cmd": f"./check run {pid} --tier quick",
        "thorough_cmd": f"./check run {pid} --tier thorough",
        "evidence_file": f"/verif/evidence/{pid}.json",
        "replay_cmd_template": f"./check replay {pid} {{path}}",
        "engine": "lean-cm",
        "level_claimed": {"category": "proof", "text": c.get("level_text", ""), "design_ref": c.get("design_ref", "DESIGN.md §7 " + pid)},
        "level_note": c.get("level_note", "; ".join(c.get("assumptions", []))),
        "technique": c.get("technique", "Lean 4 theorems about an executable model; model tied to /repo by regenerated facts (go/ast translator) and a differential/trace correspondence against the real code on every run"),
    })
m["checks"] = checks
na = json.load(open(os.path.join(V, "not_applicable.json"))) if os.path.exists(os.path.join(V, "not_applicable.json")) else {}
m["not_applicable"] = [{"property_id": p, "reason": na.get(p, "check not built yet in this round (design in DESIGN.md §7); not claimed")}
                       for p in allids if p not in props]
for e in m.get("engines", []):
    e["serves_properties"] = sorted(props)
json.dump(m, open(os.path.join(V, "MANIFEST.json"), "w"), indent=1)
print("MANIFEST.json:", len(checks), "checks,", len(m["not_applicable"]), "not applicable")
