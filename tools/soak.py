#!/usr/bin/env python3
"""Unchanged-tree soak: run every check N times (quick tier, seeds 1..N, J at a time, so the
harnesses run under CPU contention) and list every run that was not clean. A check that ever
alarms here is broken (flaky) and must be corrected before it is believed.

usage: tools/soak.py [-n N] [-j J] [--tier quick|thorough] [Cxx ...]
Evidence files are kept aside and restored (they must describe single clean runs)."""
import json, os, subprocess, sys, time, concurrent.futures as cf
V = os.path.dirname(os.path.dirname(os.path.abspath(__file__)))

def main():
    a = sys.argv[1:]
    n, j, tier, ids = 5, 6, "quick", []
    while a:
        x = a.pop(0)
        if x == "-n": n = int(a.pop(0))
        elif x == "-j": j = int(a.pop(0))
        elif x == "--tier": tier = a.pop(0)
        else: ids.append(x)
    if not ids:
        ids = [c["property_id"] for c in json.load(open(os.path.join(V, "MANIFEST.json")))["checks"]]
    saved = {}
    for p in ids:
        ef = os.path.join(V, "evidence", p + ".json")
        if os.path.exists(ef): saved[ef] = open(ef).read()
    subprocess.run([os.path.join(V, "check"), "setup"], cwd=V, capture_output=True)
    jobs = [(p, s) for s in range(1, n + 1) for p in ids]
    bad = []
    def run(ps):
        p, s = ps
        env = dict(os.environ, VERIF_SEED=str(s))
        t0 = time.time()
        c = subprocess.run([os.path.join(V, "check"), "run", p, "--tier", tier], cwd=V, capture_output=True, text=True, env=env)
        last = c.stdout.strip().splitlines()[-1] if c.stdout.strip() else c.stderr.strip()[-200:]
        ok = c.returncode == 0 and "VIOLATION" not in c.stdout
        return p, s, ok, last, round(time.time() - t0, 1), [l for l in c.stdout.splitlines() if l.startswith("VIOLATION")]
    try:
        with cf.ThreadPoolExecutor(j) as ex:
            for p, s, ok, last, w, vio in ex.map(run, jobs):
                if not ok:
                    bad.append((p, s, last, vio))
                    print("NOT CLEAN", p, "seed", s, last, *vio, flush=True)
    finally:
        for ef, txt in saved.items():
            open(ef, "w").write(txt)
    print(f"soak: {len(jobs)} runs ({len(ids)} checks x {n} seeds, {j} at a time, tier {tier}); not clean: {len(bad)}")
    return 1 if bad else 0

if __name__ == "__main__":
    sys.exit(main())
