#!/usr/bin/env python3
"""Run the repository's pinned baseline (guard OFF, default toolchain) and compare with
/root/.vp/BASELINE.json's stable_pass list. Exit 0 iff every stable test passes."""
import json, subprocess, sys, os
repo = sys.argv[1] if len(sys.argv) > 1 else "/repo"
base = json.load(open("/root/.vp/BASELINE.json"))
env = dict(os.environ)
p = subprocess.run(["go", "test", "-mod=mod", "-json", "-vet=off", "-count=1", "-timeout", "25m", "./..."],
                   cwd=repo, env=env, capture_output=True, text=True)
res = {}
for line in p.stdout.splitlines():
    try:
        e = json.loads(line)
    except Exception:
        continue
    if e.get("Test") and e.get("Action") in ("pass", "fail", "skip"):
        res[e["Package"] + "::" + e["Test"]] = e["Action"]
bad = [t for t in base["stable_pass"] if res.get(t) != "pass"]
print(f"baseline: {len(base['stable_pass']) - len(bad)}/{len(base['stable_pass'])} stable tests pass")
for t in bad:
    print("  NOT PASSING:", t, res.get(t))
sys.exit(1 if bad else 0)
